/* E2 family "crypt" (C12): the mask the KDF returns is enumerated: every byte position 0..31 x all
 * 256 values against three secrets; byte 18 (the truncation corner): all 256 mask values x all 64
 * secret values; all pairs of single-bit masks in bytes 17..19.  After crypt the seed must be
 * exactly ref_crypt(seed, mask) (XOR, re-truncation to 150 bits, encrypted flag toggled, check value
 * recomputed), it must survive store/load and encode/decode, and a second application must restore
 * the original bit for bit. */
#include "h.h"
static const char *CLS[] = { "crypt_matches_model_and_involution", NULL };

static void one(const rseed *base, const uint8_t mask[32], struct res *r, uint64_t id) {
    char rep[200], h1[40], h2[70]; hex(base->secret, 19, h1); hex(mask, 32, h2);
    sprintf(rep, "case %s %u %u %s", h1, base->birthday, base->features, h2);
    extern char *G_cur; if (G_cur) strcpy(G_cur, rep);
    memcpy(E.mask, mask, 32);
    polyseed_data *s = seed_from_ref(base); r->cases++; r->calls++;
    if (!s) { res_viol(r, "c12:setup", rep, "cannot load"); return; }
    env_clear_log();
    polyseed_crypt(s, "pass"); r->calls++;
    rseed want = *base; ref_crypt(&want, mask);
    obs o; char why[300]; observe(s, 3, &o); r->calls += 13;
    r->digest ^= mix64(id, o.store[28] | o.store[30] << 8 | o.store[31] << 16);
    const char *bad = NULL;
    if (!obs_matches_ref(&o, &want, 3, why, sizeof why)) bad = why;
    else {
        /* usable like any seed */
        polyseed_data *d = NULL; int st = polyseed_load(o.store, &d); r->calls++;
        if (st != POLYSEED_OK) bad = "store/load of the result fails"; else polyseed_free(d);
        if (!bad) { polyseed_str ph; int li = (int)(id % R_NLANG); polyseed_encode(s, polyseed_get_lang(li), 77, ph); d = NULL; st = polyseed_decode_explicit(ph, 77, polyseed_get_lang(li), &d); r->calls += 2;
            if (st != POLYSEED_OK) bad = "encode/decode of the result fails"; else { uint8_t b[32]; polyseed_store(d, b); if (memcmp(b, o.store, 32)) bad = "decoded result differs"; polyseed_free(d); } }
    }
    if (!bad) { polyseed_crypt(s, "pass"); r->calls++; obs o2; observe(s, 3, &o2); r->calls += 13; if (!obs_matches_ref(&o2, base, 3, why, sizeof why)) bad = "second application does not restore the original"; }
    polyseed_free(s);
    if (ledger_live()) { bad = "leak"; ledger_drop_all(); }
    if (bad) res_viol(r, "c12:mask", rep, "crypt with mask %s on secret %s: %s", h2, h1, bad); else { r->validated++; r->cls[0]++; }
}
static rseed SEC[3];
static void work_a(long lo, long hi, struct res *r, void *arg) { (void)arg;
    for (long x = lo; x < hi; x++) { int v = (int)(x % 256), pos = (int)((x / 256) % 32), si = (int)(x / 8192); uint8_t m[32]; for (int i = 0; i < 32; i++) m[i] = (uint8_t)(si == 2 ? 0x5A ^ i : 0); m[pos] = (uint8_t)v; one(&SEC[si], m, r, (uint64_t)x); }
    if (r->nsample < 1 && lo < hi) res_sample(r, "mask byte %ld = %ld on secret #%ld", (lo / 256) % 32, lo % 256, lo / 8192); }
static void work_b(long lo, long hi, struct res *r, void *arg) { (void)arg;
    for (long x = lo; x < hi; x++) { int v = (int)(x % 256), sv = (int)(x / 256); rseed s = SEC[2]; s.secret[18] = (uint8_t)sv; uint8_t m[32]; for (int i = 0; i < 32; i++) m[i] = (uint8_t)(0x11 * i); m[18] = (uint8_t)v; one(&s, m, r, (uint64_t)x + 100000); }
    if (r->nsample < 1 && lo < hi) res_sample(r, "truncation corner: secret[18]=%ld mask[18]=%ld", lo / 256, lo % 256); }
static void work_c(long lo, long hi, struct res *r, void *arg) { (void)arg;
    for (long x = lo; x < hi; x++) { int i = (int)(x / 24), j = (int)(x % 24); if (j <= i) continue; uint8_t m[32] = {0}; m[17 + i / 8] |= (uint8_t)(1 << (i % 8)); m[17 + j / 8] |= (uint8_t)(1 << (j % 8)); for (int si = 0; si < 3; si++) one(&SEC[si], m, r, (uint64_t)x + 200000 + (uint64_t)si * 1000); } }

/* passwords with one accented letter at every offset, composed and decomposed spelling: the KDF must be
 * given NFKD(password) without terminator, so both spellings give the same call and the same seed */
static void password_sweep(struct res *r) {
    static const int LENS[] = { 2, 3, 7, 8, 9, 10, 15, 16, 17, 23, 24, 25, 31, 32, 33, 40, 63, 64, 65 };
    for (unsigned li = 0; li < sizeof LENS / sizeof *LENS; li++) for (int off = 0; off + 2 <= LENS[li]; off++) for (int kind = 0; kind < 3; kind++) {
        /* kind 0: e-acute (2-byte NFC, 3-byte NFD); 1: half-width katakana KA (3 bytes, compatibility-decomposes to full-width); 2: Hangul syllable GAG (3 bytes NFC, 9 bytes NFD) */
        static const char *NFC_[3] = { "\xC3\xA9", "\xEF\xBD\xB6", "\xEA\xB0\x81" };
        int L = LENS[li]; size_t cl = strlen(NFC_[kind]); if (off + (int)cl > L) continue;
        char pw[128]; memset(pw, 'a', (size_t)off); memcpy(pw + off, NFC_[kind], cl); memset(pw + off + cl, 'b', (size_t)L - (size_t)off - cl); pw[L] = 0;
        char nf[256]; size_t nl = u_nfkd(pw, nf, sizeof nf - 1);
        char rep[400], hx[300]; hex(pw, (size_t)L, hx); snprintf(rep, sizeof rep, "pw %s", hx);
        uint8_t out[2][32];
        for (int spelling = 0; spelling < 2; spelling++) {
            polyseed_data *s = seed_from_ref(&SEC[2]); r->calls++;
            env_clear_log();
            polyseed_crypt(s, spelling ? nf : pw); r->calls++; r->cases++;
            if ((E.n_kdf != 1 || E.kdf.pwlen != nl || memcmp(E.kdf.pw, nf, nl)) && E.n_nfkd == 0) res_viol(r, "c18:normaliser-not-consulted", rep, "password of %d bytes with a non-ASCII character at offset %d: the injected NFKD function was never called and what reached the KDF is not the normal form", L, off);
            if (E.n_kdf != 1 || E.kdf.pwlen != nl || memcmp(E.kdf.pw, nf, nl)) { res_viol(r, "c12:password-normalisation", rep, "password of %d bytes with a non-ASCII character at offset %d (%s spelling): the KDF received %zu bytes, NFKD(password) has %zu (or the bytes differ)", L, off, spelling ? "decomposed" : "composed", E.kdf.pwlen, nl); polyseed_free(s); goto next; }
            polyseed_store(s, out[spelling]); polyseed_free(s);
        }
        if (memcmp(out[0], out[1], 32)) { res_viol(r, "c12:password-equivalence", rep, "canonically equivalent spellings of a password encrypt the same seed differently"); continue; }
        r->validated += 2; r->cls[0] += 2;
        next:;
    }
    /* the password operation cannot fail: with a refusing allocator it must still be applied exactly */
    { static const char *PWF[] = { "ascii", "contrase\xC3\xB1a", "\xEF\xBD\xB6" };
      for (unsigned k = 0; k < 3; k++) { polyseed_data *s = seed_from_ref(&SEC[2]); rseed want = SEC[2]; ref_crypt(&want, E.mask); env_clear_log(); E.fail_at = 0; polyseed_crypt(s, PWF[k]); E.fail_at = -1; r->cases++; r->calls += 2;
        uint8_t st[32], exp[32]; polyseed_store(s, st); ref_storage(&want, exp); polyseed_free(s);
        if (memcmp(st, exp, 32)) res_viol(r, "c12:crypt-refusing-allocator", "pw", "polyseed_crypt with a refusing allocator did not apply the password operation (password #%u)", k); else { r->validated++; r->cls[0]++; } } }
    res_sample(r, "passwords a..a<accented>b..b of 2..65 bytes with the accented character at every offset, composed and decomposed");
}
/* one password -> the KDF must receive exactly `want` (wl bytes) */
static int pw_exact(const char *pw, const char *want, size_t wl, struct res *r, const char *key, const char *what) {
    polyseed_data *s = seed_from_ref(&SEC[2]); r->calls++;
    env_clear_log(); polyseed_crypt(s, pw); r->calls++; r->cases++;
    int bad = (E.n_kdf != 1 || E.kdf.pwlen != wl || memcmp(E.kdf.pw, want, wl < sizeof E.kdf.pw ? wl : sizeof E.kdf.pw));
    polyseed_free(s);
    if (bad && E.n_nfkd == 0) { int na = 0; for (const char *q = pw; *q; q++) if (*q & 0x80) na = 1;
        if (na) { char rep2[900], hx2[800]; size_t pl2 = strlen(pw); hex(pw, pl2 > 390 ? 390 : pl2, hx2); snprintf(rep2, sizeof rep2, "pwx %s", hx2); res_viol(r, "c18:normaliser-not-consulted", rep2, "%s: the password contains non-ASCII characters, the injected NFKD function was never called and what reached the KDF is not the normal form", what); } }
    if (bad) { char rep[900], hx[800]; size_t pl = strlen(pw); hex(pw, pl > 390 ? 390 : pl, hx); snprintf(rep, sizeof rep, "pwx %s", hx);
        size_t d = 0; while (d < wl && d < E.kdf.pwlen && E.kdf.pw[d] == (uint8_t)want[d]) d++;
        res_viol(r, key, rep, "%s: the KDF was called %lu times with a password of %zu bytes; NFKD(password) has %zu bytes; first difference at byte %zu (got 0x%02x, expected 0x%02x)", what, E.n_kdf, E.kdf.pwlen, wl, d, d < E.kdf.pwlen ? E.kdf.pw[d] : 0, d < wl ? (uint8_t)want[d] : 0); return 1; }
    r->validated++; r->cls[0]++; return 0;
}
/* every ASCII byte (control characters included) alone, embedded, and every ordered pair: ASCII is its own NFKD */
static void password_alphabet(struct res *r) {
    char pw[8];
    pw_exact("", "", 0, r, "c12:password-bytes", "the empty password");
    for (int b = 1; b < 128; b++) {
        pw[0] = (char)b; pw[1] = 0; pw_exact(pw, pw, 1, r, "c12:password-bytes", "one-byte password");
        pw[0] = 'x'; pw[1] = (char)b; pw[2] = 'y'; pw[3] = 0; pw_exact(pw, pw, 3, r, "c12:password-bytes", "ASCII byte between two letters");
        for (int c = 1; c < 128; c++) { pw[0] = (char)b; pw[1] = (char)c; pw[2] = 0; if (pw_exact(pw, pw, 2, r, "c12:password-bytes", "two-byte ASCII password")) break; }
    }
    /* the same bytes next to a non-ASCII character (the normaliser is consulted) */
    for (int b = 1; b < 128; b++) { char q[16]; snprintf(q, sizeof q, "%c\xC3\xA9%c", b, b); char nf[32]; size_t nl = u_nfkd(q, nf, sizeof nf - 1); pw_exact(q, nf, nl, r, "c12:password-bytes", "ASCII byte around a non-ASCII character"); }
    /* every code point of the Basic Multilingual Plane (surrogates excluded) as a one-character password and between two letters:
     * the KDF receives its compatibility decomposition, whatever UTF-8 lead byte it has */
    for (unsigned cp = 0x80; cp < 0x10000; cp++) {
        if (cp >= 0xD800 && cp < 0xE000) continue;
        char q[16]; size_t l = 0;
        if (cp < 0x800) { q[l++] = (char)(0xC0 | cp >> 6); q[l++] = (char)(0x80 | (cp & 63)); } else { q[l++] = (char)(0xE0 | cp >> 12); q[l++] = (char)(0x80 | (cp >> 6 & 63)); q[l++] = (char)(0x80 | (cp & 63)); }
        q[l] = 0; char nf[64]; size_t nl = u_nfkd(q, nf, sizeof nf - 1);
        if (pw_exact(q, nf, nl, r, "c12:password-codepoint", "one-character password")) { if (r->nviol > 40) break; }
        if (cp < 0x3000 || (cp & 15) == 0) { char e[20]; snprintf(e, sizeof e, "5%sm", q); nl = u_nfkd(e, nf, sizeof nf - 1); pw_exact(e, nf, nl, r, "c12:password-codepoint", "character between two ASCII characters"); }
    }
    /* four-byte sequences (supplementary planes): alone and next to a character that has a decomposition - the whole password is what the
     * injected normaliser returns for it */
    { static const unsigned RG[][2] = { { 0x10000, 0x13000 }, { 0x1D000, 0x1FB00 }, { 0x20000, 0x20100 }, { 0x2F800, 0x2FA20 }, { 0xE0000, 0xE0080 }, { 0xF0000, 0xF0002 }, { 0x10FFFD, 0x110000 } };
      for (unsigned g = 0; g < sizeof RG / sizeof *RG; g++) for (unsigned cp = RG[g][0]; cp < RG[g][1]; cp++) {
        char q[24]; size_t l = 0; q[l++] = (char)(0xF0 | cp >> 18); q[l++] = (char)(0x80 | (cp >> 12 & 63)); q[l++] = (char)(0x80 | (cp >> 6 & 63)); q[l++] = (char)(0x80 | (cp & 63)); q[l] = 0;
        char nf[96]; size_t nl = u_nfkd(q, nf, sizeof nf - 1);
        if (pw_exact(q, nf, nl, r, "c12:password-codepoint", "one-character password (four-byte sequence)")) { if (r->nviol > 40) break; }
        if ((cp & 7) == 0) { char e[40]; snprintf(e, sizeof e, "\xC3\xA9%s\xEF\xAC\x81", q); nl = u_nfkd(e, nf, sizeof nf - 1); pw_exact(e, nf, nl, r, "c12:password-codepoint", "four-byte sequence between a precomposed letter and a ligature"); }
      } }
    res_sample(r, "all 127 one-byte and 16129 two-byte ASCII passwords, control characters included; every BMP code point; 25 000 code points of the supplementary planes");
}
/* passwords whose normal form is as long as the phrase buffer allows, one byte less, one byte more: p ASCII bytes + n accented letters,
 * both spellings; what the KDF receives is what the injected normaliser delivers (it fills at most sizeof(polyseed_str)-1 bytes) */
static void password_capacity(struct res *r) {
    static const char *C_[2] = { "\xC3\xA9", "\xEA\xB0\x81" }; static const char *D_[2] = { "e\xCC\x81", "\xE1\x84\x80\xE1\x85\xA1\xE1\x86\xA8" };
    for (int kind = 0; kind < 2; kind++) { size_t dl = strlen(D_[kind]);
        for (int p = 0; p < (int)dl + 1; p++) for (int n = (int)((CAP - 12) / dl); (size_t)p + (size_t)n * dl <= CAP + dl; n++) {
            char comp[2048], deco[2048], nf[2048]; size_t a = 0, b = 0;
            for (int i = 0; i < p; i++) { comp[a++] = 'k'; deco[b++] = 'k'; }
            for (int i = 0; i < n; i++) { memcpy(comp + a, C_[kind], strlen(C_[kind])); a += strlen(C_[kind]); memcpy(deco + b, D_[kind], dl); b += dl; }
            comp[a] = 0; deco[b] = 0;
            size_t nl = u_nfkd(comp, nf, CAP);
            char what[120]; snprintf(what, sizeof what, "password with a normal form of %zu bytes (phrase buffer holds %zu), composed spelling", b, (size_t)CAP);
            pw_exact(comp, nf, nl, r, "c12:password-capacity", what);
            nl = u_nfkd(deco, nf, CAP); snprintf(what, sizeof what, "password with a normal form of %zu bytes (phrase buffer holds %zu), decomposed spelling", b, (size_t)CAP);
            pw_exact(deco, nf, nl, r, "c12:password-capacity", what);
        } }
    /* long ASCII passwords around the same sizes pass through unchanged up to the capacity */
    for (size_t L = CAP - 3; L <= CAP; L++) { char pw[1024]; memset(pw, 'q', L); pw[L] = 0; pw_exact(pw, pw, L, r, "c12:password-capacity", "ASCII password at the capacity of the phrase buffer"); }
    res_sample(r, "normal forms of 531..546 bytes in both spellings");
}

int main(int argc, char **argv) {
    int a = common_args(argc, argv);
    ref_init(VERIF_ROOT); sec_mark_initial(); env_init(); inject(0);
    struct res *r = calloc(1, sizeof *r); struct res *r0 = calloc(1, sizeof *r0);
    /* before any enabling call was ever made in this process (the library's default configuration): the encrypted flag is not a user
     * feature, so an encrypted seed is stored, loaded, encoded and decoded like any other */
    { rseed b; memset(&b, 0, sizeof b); for (int i = 0; i < 19; i++) b.secret[i] = (uint8_t)(0x3C + 5 * i); b.secret[18] &= 0x3F; b.birthday = 400;
      polyseed_data *s0 = seed_from_ref(&b); r0->cases++; r0->calls++;
      if (!s0) res_viol(r0, "c12:default-config", "default", "cannot load a plain seed in the default configuration");
      else { polyseed_crypt(s0, "pw"); rseed w = b; ref_crypt(&w, E.mask); uint8_t st[32], ex[32]; polyseed_store(s0, st); ref_storage(&w, ex); r0->calls += 2;
        polyseed_data *d = NULL; int ls = polyseed_load(st, &d); if (ls == 0) polyseed_free(d); r0->calls++;
        int ds[2] = { 0, 0 }; for (int li = 0; li < 2; li++) { polyseed_str ph; polyseed_encode(s0, polyseed_get_lang(li ? 2 : 0), 9, ph); d = NULL; ds[li] = li ? polyseed_decode(ph, 9, NULL, &d) : polyseed_decode_explicit(ph, 9, polyseed_get_lang(0), &d); if (ds[li] == 0) polyseed_free(d); r0->calls += 2; }
        polyseed_crypt(s0, "pw"); uint8_t back[32], orig[32]; polyseed_store(s0, back); ref_storage(&b, orig); polyseed_free(s0);
        if (memcmp(st, ex, 32) || ls != 0 || ds[0] != 0 || ds[1] != 0 || memcmp(back, orig, 32)) res_viol(r0, "c12:default-config", "default", "no enabling call made yet: encrypted seed %s; load %d, decode_explicit %d, decode %d; second application %s", memcmp(st, ex, 32) ? "differs from the model" : "matches the model", ls, ds[0], ds[1], memcmp(back, orig, 32) ? "does not restore" : "restores");
        else { r0->validated++; r0->cls[0]++; } }
      res_sample(r0, "crypt / store / load / encode / decode / crypt before polyseed_enable_features was ever called"); }
    if (a < argc && !strcmp(argv[a], "default")) { for (int i = 0; i < r0->nviol; i++) printf("REPRODUCED %s: %s\n", r0->v[i].key, r0->v[i].msg); return r0->nviol ? 1 : 0; }
    polyseed_enable_features(7);
    memset(&SEC[0], 0, sizeof(rseed)); memset(SEC[1].secret, 0xFF, 19); SEC[1].secret[18] = 0x3F; SEC[1].birthday = 1023; SEC[1].features = 7;
    for (int i = 0; i < 19; i++) SEC[2].secret[i] = (uint8_t)(0xA5 ^ (i * 13)); SEC[2].secret[18] &= 0x3F; SEC[2].birthday = 600; SEC[2].features = 16 | 2;
    if (a < argc && !strcmp(argv[a], "pwx")) { password_alphabet(r); password_capacity(r); for (int i = 0; i < r->nviol && i < 3; i++) printf("REPRODUCED %s: %s\n", r->v[i].key, r->v[i].msg); return r->nviol ? 1 : 0; }
    if (a < argc && !strcmp(argv[a], "pw")) { password_sweep(r); for (int i = 0; i < r->nviol; i++) printf("REPRODUCED %s: %s\n", r->v[i].key, r->v[i].msg); return r->nviol ? 1 : 0; }
    if (a < argc && !strcmp(argv[a], "case")) {
        rseed s; parse_rseed(argv[a + 1], atoi(argv[a + 2]), atoi(argv[a + 3]), &s); uint8_t m[32]; unhexn(argv[a + 4], m, 32);
        one(&s, m, r, 0); for (int i = 0; i < r->nviol; i++) printf("REPRODUCED %s: %s\n", r->v[i].key, r->v[i].msg); return r->nviol ? 1 : 0;
    }
    out_begin();
    out_part("default configuration (no enabling call made in the process)", r0, CLS, "");
    par_run(3L * 32 * 256, work_a, NULL, r); out_part("every mask byte position x 256 values x 3 secrets", r, CLS, "");
    memset(r, 0, sizeof *r); par_run(64L * 256, work_b, NULL, r); out_part("byte 18: all 64 secret values x all 256 mask values", r, CLS, "the 150-bit truncation corner");
    memset(r, 0, sizeof *r); par_run(24L * 24, work_c, NULL, r); out_part("all pairs of single mask bits in bytes 17-19 x 3 secrets", r, CLS, "");
    memset(r, 0, sizeof *r); password_sweep(r); out_part("passwords with a non-ASCII character at every offset, both spellings", r, CLS, "");
    memset(r, 0, sizeof *r); password_alphabet(r); out_part("every ASCII byte and ordered pair of ASCII bytes as a password", r, CLS, "the KDF must receive the bytes unchanged");
    memset(r, 0, sizeof *r); password_capacity(r); out_part("passwords whose normal form is at, just below and just above the phrase-buffer capacity", r, CLS, "");
    out_end(); return 0;
}
