/* E2 family "crypt" (C12): the mask the KDF returns is enumerated: every byte position 0..31 x all
 * 256 values against three secrets; byte 18 (the truncation corner): all 256 mask values x all 64
 * secret values; all pairs of single-bit masks in bytes 17..19.  After crypt the seed must be
 * exactly ref_crypt(seed, mask) (XOR, re-truncation to 150 bits, encrypted flag toggled, check value
 * recomputed), it must survive store/load and encode/decode, and a second application must restore
 * the original bit for bit. */
#include "h.h"
static const char *CLS[] = { "crypt_matches_model_and_involution", NULL };

static void one(const rseed *base, const uint8_t mask[32], struct res *r, uint64_t id) {
    char rep[200], h1[40], h2[70]; hex(base->secret, 19, h1); hex(mask, 32, h2);
    sprintf(rep, "case %s %u %u %s", h1, base->birthday, base->features, h2);
    extern char *G_cur; if (G_cur) strcpy(G_cur, rep);
    memcpy(E.mask, mask, 32);
    polyseed_data *s = seed_from_ref(base); r->cases++; r->calls++;
    if (!s) { res_viol(r, "c12:setup", rep, "cannot load"); return; }
    env_clear_log();
    polyseed_crypt(s, "pass"); r->calls++;
    rseed want = *base; ref_crypt(&want, mask);
    obs o; char why[300]; observe(s, 3, &o); r->calls += 13;
    r->digest ^= mix64(id, o.store[28] | o.store[30] << 8 | o.store[31] << 16);
    const char *bad = NULL;
    if (!obs_matches_ref(&o, &want, 3, why, sizeof why)) bad = why;
    else {
        /* usable like any seed */
        polyseed_data *d = NULL; int st = polyseed_load(o.store, &d); r->calls++;
        if (st != POLYSEED_OK) bad = "store/load of the result fails"; else polyseed_free(d);
        if (!bad) { polyseed_str ph; int li = (int)(id % R_NLANG); polyseed_encode(s, polyseed_get_lang(li), 77, ph); d = NULL; st = polyseed_decode_explicit(ph, 77, polyseed_get_lang(li), &d); r->calls += 2;
            if (st != POLYSEED_OK) bad = "encode/decode of the result fails"; else { uint8_t b[32]; polyseed_store(d, b); if (memcmp(b, o.store, 32)) bad = "decoded result differs"; polyseed_free(d); } }
    }
    if (!bad) { polyseed_crypt(s, "pass"); r->calls++; obs o2; observe(s, 3, &o2); r->calls += 13; if (!obs_matches_ref(&o2, base, 3, why, sizeof why)) bad = "second application does not restore the original"; }
    polyseed_free(s);
    if (ledger_live()) { bad = "leak"; ledger_drop_all(); }
    if (bad) res_viol(r, "c12:mask", rep, "crypt with mask %s on secret %s: %s", h2, h1, bad); else { r->validated++; r->cls[0]++; }
}
static rseed SEC[3];
static void work_a(long lo, long hi, struct res *r, void *arg) { (void)arg;
    for (long x = lo; x < hi; x++) { int v = (int)(x % 256), pos = (int)((x / 256) % 32), si = (int)(x / 8192); uint8_t m[32]; for (int i = 0; i < 32; i++) m[i] = (uint8_t)(si == 2 ? 0x5A ^ i : 0); m[pos] = (uint8_t)v; one(&SEC[si], m, r, (uint64_t)x); }
    if (r->nsample < 1 && lo < hi) res_sample(r, "mask byte %ld = %ld on secret #%ld", (lo / 256) % 32, lo % 256, lo / 8192); }
static void work_b(long lo, long hi, struct res *r, void *arg) { (void)arg;
    for (long x = lo; x < hi; x++) { int v = (int)(x % 256), sv = (int)(x / 256); rseed s = SEC[2]; s.secret[18] = (uint8_t)sv; uint8_t m[32]; for (int i = 0; i < 32; i++) m[i] = (uint8_t)(0x11 * i); m[18] = (uint8_t)v; one(&s, m, r, (uint64_t)x + 100000); }
    if (r->nsample < 1 && lo < hi) res_sample(r, "truncation corner: secret[18]=%ld mask[18]=%ld", lo / 256, lo % 256); }
static void work_c(long lo, long hi, struct res *r, void *arg) { (void)arg;
    for (long x = lo; x < hi; x++) { int i = (int)(x / 24), j = (int)(x % 24); if (j <= i) continue; uint8_t m[32] = {0}; m[17 + i / 8] |= (uint8_t)(1 << (i % 8)); m[17 + j / 8] |= (uint8_t)(1 << (j % 8)); for (int si = 0; si < 3; si++) one(&SEC[si], m, r, (uint64_t)x + 200000 + (uint64_t)si * 1000); } }

int main(int argc, char **argv) {
    int a = common_args(argc, argv);
    ref_init(VERIF_ROOT); sec_mark_initial(); env_init(); inject(0); polyseed_enable_features(7);
    struct res *r = calloc(1, sizeof *r);
    memset(&SEC[0], 0, sizeof(rseed)); memset(SEC[1].secret, 0xFF, 19); SEC[1].secret[18] = 0x3F; SEC[1].birthday = 1023; SEC[1].features = 7;
    for (int i = 0; i < 19; i++) SEC[2].secret[i] = (uint8_t)(0xA5 ^ (i * 13)); SEC[2].secret[18] &= 0x3F; SEC[2].birthday = 600; SEC[2].features = 16 | 2;
    if (a < argc && !strcmp(argv[a], "case")) {
        rseed s; parse_rseed(argv[a + 1], atoi(argv[a + 2]), atoi(argv[a + 3]), &s); uint8_t m[32]; unhexn(argv[a + 4], m, 32);
        one(&s, m, r, 0); for (int i = 0; i < r->nviol; i++) printf("REPRODUCED %s: %s\n", r->v[i].key, r->v[i].msg); return r->nviol ? 1 : 0;
    }
    out_begin();
    par_run(3L * 32 * 256, work_a, NULL, r); out_part("every mask byte position x 256 values x 3 secrets", r, CLS, "");
    memset(r, 0, sizeof *r); par_run(64L * 256, work_b, NULL, r); out_part("byte 18: all 64 secret values x all 256 mask values", r, CLS, "the 150-bit truncation corner");
    memset(r, 0, sizeof *r); par_run(24L * 24, work_c, NULL, r); out_part("all pairs of single mask bits in bytes 17-19 x 3 secrets", r, CLS, "");
    out_end(); return 0;
}
