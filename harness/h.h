/* Harness core shared by all exploration programs. */
#ifndef VERIF_H_H
#define VERIF_H_H
#define _GNU_SOURCE
#include <polyseed.h>
#include <stdint.h>
#include <time.h>
#include <stddef.h>
#include <stdio.h>
#include <stdlib.h>
#include <string.h>
#include "ref.h"

#ifndef VERIF_ROOT
#define VERIF_ROOT "/verif"
#endif
#define PSTR (sizeof(polyseed_str))
#define CAP (PSTR - 1)

/* ------------------------------------------------------------------ sections */
/* all writable static data of the library (sections renamed to ps_data / ps_bss by the build) */
size_t sec_size(void);
void sec_save(uint8_t *dst);
void sec_load(const uint8_t *src);
uint64_t sec_hash(uint64_t h);
void sec_mark_initial(void);     /* remember the state at process start (before any polyseed call) */
void sec_reset_initial(void);
size_t sec_diff(const uint8_t *snap);   /* number of bytes that differ from a snapshot */
int sec_contains(const void *p);
uint8_t *sec_copy(void);         /* malloc'ed snapshot */

/* ------------------------------------------------------------------ environment */
struct kdfcall {
    uint8_t pw[1100]; size_t pwlen; const void *pwptr;
    uint8_t salt[64]; size_t saltlen; uint64_t iters; uint8_t *key; size_t keylen;
    int table;                /* which injected table's KDF function was called (0 = A, 1 = B) */
};
struct blk { void *p; size_t n; int wiped; };
#define MAXLIVE 512
struct env {
    /* inputs chosen by the case */
    uint8_t tape[2][32];      /* random source of table A / B */
    uint64_t clock[2];
    uint64_t clock_seq[4]; int clock_seq_n; int clock_seq_i;   /* if clock_seq_n > 0 table A's clock returns these values in turn (a clock that changes between reads) */
    long fail_at;             /* fail the k-th allocation request counted from env_clear_log(); -1 = never */
    uint8_t mask[32];         /* returned by the KDF for the 16-byte ("mask") salt */
    uint8_t keyfill;          /* key byte i = keyfill + i for the 32-byte ("key") salt */
    int protect_key;          /* C04: make the key page inaccessible once the KDF returns */
    int repaint;              /* E4: callbacks repaint the stack below their frame */
    int alloc_fill_set; uint8_t alloc_fill;   /* fill byte of fresh blocks (default 0xDD) */
    /* logs */
    unsigned long n_rand, n_time, n_alloc, n_free, n_mz, n_kdf, n_nfc, n_nfkd;
    unsigned long n_libc_malloc, n_libc_free, n_libc_time;
    unsigned long n_alloc_tab[2], n_free_tab[2], n_mz_tab[2];
    int alloc_recycle; uint8_t recycled[256]; size_t recycled_n;      /* a new block of the size of the last released one starts with that block's final contents */   /* calls of the allocate / release / wipe entries per dependency table (A, B) */
    int last_table;           /* table id (0/1) of the last rand/time call */
    size_t last_rand_n; void *last_rand_p;
    size_t last_alloc_n; void *last_alloc_p;
    long alloc_seq;
    struct kdfcall kdf;
    char calls[96]; int ncalls;      /* sequence of dependency calls: R T A F Z K C D, libc: m f t */
    struct blk live[MAXLIVE]; int nlive;
    /* ledger errors */
    int err_foreign_free, err_free_dirty, err_free_unwiped, err_free_null;
    /* memzero log */
    struct { void *p; size_t n; } mz[32]; int nmz;
};
extern struct env E;
void env_init(void);            /* full reset: inputs to defaults, logs cleared, ledger must be empty */
void env_clear_log(void);       /* logs and counters only */
extern const polyseed_dependency DEPS[2];       /* table A and table B (different rand/time functions) */
void deps_variant(int table, int null_time, int null_alloc, int null_free, polyseed_dependency *out);
void inject(int table);
int ledger_live(void);
void ledger_drop_all(void);     /* forget (and release) all live blocks - used when a case is abandoned */

/* ------------------------------------------------------------------ observation */
typedef struct obs {
    uint8_t store[32];
    uint64_t birthday;
    unsigned feat[12];        /* polyseed_get_feature(seed, m) for m = 0..7 and for masks with bits above the three user bits (OBS_HI_MASKS) */
    int enc;
    uint8_t kdf_pw[32]; size_t kdf_pwlen; uint8_t kdf_salt[32]; size_t kdf_saltlen; uint64_t kdf_iters; size_t kdf_keylen;
    uint64_t phrase_en, phrase_ko;   /* digests of polyseed_encode(seed, English / Korean, coin): a seed is also what it encodes to */
} obs;
void observe(const polyseed_data *s, unsigned coin, obs *o);
int obs_matches_ref(const obs *o, const rseed *r, unsigned coin, char *why, size_t whylen);
int obs_eq(const obs *a, const obs *b);
/* make a library seed holding exactly r (via polyseed_load of the reference serialisation);
 * enabled mask is left as found.  NULL if the library refuses. */
polyseed_data *seed_from_ref(const rseed *r);
polyseed_data *seed_via_create(const rseed *r);
int lang_index(const polyseed_lang *l);          /* registry index or -1 */
void hex(const void *p, size_t n, char *out);
int unhexn(const char *h, uint8_t *out, size_t max);
void rseed_from_storage(const uint8_t st[32], rseed *r);  /* plain field extraction, no validation */
void rseed_str(const rseed *r, char *out /* 120 */);
int parse_rseed(const char *hex19, unsigned birthday, unsigned features, rseed *r);

/* ------------------------------------------------------------------ results */
#define NCLS 40
#define MAXV 400
struct viol { char key[160]; char replay[2600]; char msg[600]; };
struct res {
    uint64_t cases, calls, validated, digest;
    uint64_t cls[NCLS];
    uint64_t nviol_total; int nviol; struct viol v[MAXV];
    int timed_out;
    int nsample; char sample[6][400];
};
void res_add(struct res *tot, const struct res *r);
void res_viol(struct res *r, const char *key, const char *replay, const char *fmt, ...) __attribute__((format(printf, 4, 5)));
void res_sample(struct res *r, const char *fmt, ...) __attribute__((format(printf, 2, 3)));
static inline uint64_t mix64(uint64_t h, uint64_t v) { h ^= v + 0x9e3779b97f4a7c15ULL + (h << 6) + (h >> 2); return h * 0xff51afd7ed558ccdULL; }

typedef void (*workfn)(long lo, long hi, struct res *r, void *arg);
/* run f over [0,n) split into chunks over `workers` forked processes; merge into tot */
void par_run(long n, workfn f, void *arg, struct res *tot);
extern int G_workers;
extern time_t E_libc_time_value;
extern unsigned E_create_high_bits;
extern int E_reinject_from_alloc, E_tif; extern unsigned long E_stale_calls;
extern unsigned long E_env_asked; extern char E_env_last[64];      /* environment variables the code under test asked for (the harness answers "1000" to every name of its own) */
extern double G_deadline;       /* absolute monotonic seconds; 0 = none */
double now_s(void);
int past_deadline(void);

/* JSON output of one named part */
void out_begin(void);
void out_part(const char *name, const struct res *r, const char *const *cls_names, const char *note);
void out_kv_int(const char *k, long long v);
void out_end(void);

/* common argv handling: --workers N --deadline S --seed N --tier quick|thorough ; returns index of first non-option */
extern long G_seed; extern int G_thorough;
int common_args(int argc, char **argv);
uint64_t prng(uint64_t *s);
#endif
