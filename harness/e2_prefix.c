/* E2 family "prefix" (C08): abbreviation / accent rule, exactly.
 * Every language x every word x every prefix length (in letters) x every subset of accents
 * kept/dropped x {NFD, NFC} x continuation variants.  The variant replaces the word at a chosen
 * position of a checksum-valid phrase; decode_explicit is compared (1) with the property's own
 * classification (permitted -> same seed, not permitted -> never that seed) and (2) with the
 * reference decoder. */
#include "h.h"

static const char *CLS[] = { "permitted_variant_same_seed", "rejected_lang_error", "rejected_maps_to_other_word(checksum)", "mixed_phrase_same_seed", NULL };

/* ---- clusters: base code point + following combining marks */
struct cl { char base[8]; char marks[16]; };
static int u8len(unsigned char c) { return c < 0x80 ? 1 : c < 0xE0 ? 2 : c < 0xF0 ? 3 : 4; }
static unsigned u8cp(const char *s) { unsigned char c = (unsigned char)s[0]; int n = u8len(c); unsigned v = n == 1 ? c : c & (0xFF >> (n + 1)); for (int i = 1; i < n; i++) v = (v << 6) | ((unsigned char)s[i] & 0x3F); return v; }
static int is_mark(unsigned cp) { return (cp >= 0x300 && cp <= 0x36F) || cp == 0x3099 || cp == 0x309A; }
static int clusters(const char *w, struct cl *out) {
    int n = 0;
    while (*w) {
        int l = u8len((unsigned char)*w); unsigned cp = u8cp(w);
        if (is_mark(cp) && n > 0) strncat(out[n - 1].marks, w, (size_t)l);
        else { memset(&out[n], 0, sizeof out[n]); memcpy(out[n].base, w, (size_t)l); n++; }
        w += l;
    }
    return n;
}

struct var { char tok[420]; int permitted; /* 1 = must decode to the word, 0 = must not */ };
#define MAXVAR 600
static int gen_variants(int li, unsigned idx, struct var *V) {
    const rlang *L = &RL[li];
    struct cl C[40]; int n = clusters(L->w[idx], C);
    int nv = 0;
#define ADD(str, perm) do { if (nv < MAXVAR && strlen(str) < sizeof V[0].tok) { strcpy(V[nv].tok, (str)); V[nv].permitted = (perm); nv++; } } while (0)
    if (L->prefix) {
        for (int k = 1; k <= n; k++) {
            int acc[40], na = 0; for (int i = 0; i < k; i++) if (C[i].marks[0]) acc[na++] = i;
            for (unsigned sub = 0; sub < (1u << na); sub++) {
                char t[128] = "";
                for (int i = 0; i < k; i++) { strcat(t, C[i].base); for (int j = 0; j < na; j++) if (acc[j] == i && (sub >> j & 1)) strcat(t, C[i].marks); }
                int perm = (k == n) || (k >= 4);
                if (!L->accents && sub != (1u << na) - 1 && na) continue;   /* languages without accent folding have no marks anyway */
                ADD(t, perm);
                if (sub) { char c[128]; u_nfc(t, c, sizeof c - 1); if (strcmp(c, t)) ADD(c, perm); }
            }
        }
        /* continuations the word does not have */
        char full[128] = ""; for (int i = 0; i < n; i++) { strcat(full, C[i].base); strcat(full, C[i].marks); }
        char t[140];
        snprintf(t, sizeof t, "%sx", full); ADD(t, 0);
        snprintf(t, sizeof t, "%s%s", full, C[n - 1].base); ADD(t, 0);
        for (int k = 3; k < n; k++) {          /* k letters + a letter that differs from letter k+1 */
            char p[128] = ""; for (int i = 0; i < k; i++) strcat(p, C[i].base);
            char wrong = (C[k].base[0] == 'q') ? 'x' : 'q';
            snprintf(t, sizeof t, "%s%c", p, wrong); ADD(t, 0);
            /* and with the rest of the word after the wrong letter */
            char rest[128] = ""; for (int i = k + 1; i < n; i++) strcat(rest, C[i].base);
            snprintf(t, sizeof t, "%s%c%s", p, wrong, rest); ADD(t, 0);
        }
        if (L->accents) {   /* an accent typed where the word has none: still the same word (accents are ignored) */
            for (int i = 0; i < n; i++) if (!C[i].marks[0] && strchr("aeiou", C[i].base[0])) {
                char p[128] = ""; for (int j = 0; j < n; j++) { strcat(p, C[j].base); strcat(p, C[j].marks); if (j == i) strcat(p, "\xCC\x81"); }
                ADD(p, 1); break;
            }
        }
        if (!L->accents) {  /* languages without accent folding: any non-ASCII character makes the token a different word */
            for (int i = 0; i < n; i++) if (strchr("aeiouy", C[i].base[0])) {
                char p[128] = ""; for (int j = 0; j < n; j++) { strcat(p, C[j].base); if (j == i) strcat(p, "\xCC\x81"); }
                ADD(p, 0);
                char c[128]; u_nfc(p, c, sizeof c - 1); if (strcmp(c, p)) ADD(c, 0);
                /* the same inside a 4+ letter prefix */
                if (i < 4 && n > 4) { char q[128] = ""; for (int j = 0; j < 4 || j <= i; j++) { strcat(q, C[j].base); if (j == i) strcat(q, "\xCC\x81"); } ADD(q, 0); }
                break;
            }
            snprintf(t, sizeof t, "%s\xE2\x82\xAC", full); ADD(t, 0);                       /* word + euro sign */
            snprintf(t, sizeof t, "%s\xCC\x81", full); ADD(t, 0);                             /* word + combining accent */
            if (n >= 3) { char p[128] = ""; for (int j = 0; j < n; j++) { if (j == 2) strcat(p, "\xE6\x97\xA5"); strcat(p, C[j].base); } ADD(p, 0); }   /* CJK character between letters */
        }
        /* ASCII bytes that are not lower-case letters are characters like any other: appended, inserted, in front, after a 4-letter prefix */
        { static const char JUNK[] = "1-.'_0~A@"; 
          for (const char *j = JUNK; *j; j++) {
              snprintf(t, sizeof t, "%s%c", full, *j); ADD(t, 0);
              snprintf(t, sizeof t, "%c%s", *j, full); ADD(t, 0);
              { char p[128] = ""; strcat(p, C[0].base); strcat(p, C[0].marks); size_t l = strlen(p); p[l] = *j; p[l + 1] = 0; for (int i = 1; i < n; i++) { strcat(p, C[i].base); strcat(p, C[i].marks); } ADD(p, 0); }
              if (n > 4) { char p[128] = ""; for (int i = 0; i < 4; i++) strcat(p, C[i].base); size_t l = strlen(p); p[l] = *j; p[l + 1] = 0; ADD(p, 0); }
          } }
        /* a valid abbreviation followed by hundreds of letters the word does not have (offsets that do not fit 8 bits) */
        if (n > 4) { static const int JL[] = { 250, 251, 252, 253, 254, 255, 256, 257, 300 };
            for (unsigned q = 0; q < sizeof JL / sizeof *JL; q++) for (int pl = 4; pl <= 5 && pl < n; pl++) { char big[420] = ""; for (int i = 0; i < pl; i++) strcat(big, C[i].base); size_t l = strlen(big); memset(big + l, 'x', (size_t)JL[q]); big[l + (size_t)JL[q]] = 0; ADD(big, 0); } }
        /* upper case is not folded */
        { char u[128]; strcpy(u, full); if (u[0] >= 'a' && u[0] <= 'z') { u[0] -= 32; ADD(u, 0); } }
    } else {
        /* exact languages: full word in NFKD and NFC; every proper prefix by code points of both forms; repeated last unit */
        ADD(L->w[idx], 1);
        if (strcmp(L->wnfc[idx], L->w[idx])) ADD(L->wnfc[idx], 1);
        for (int form = 0; form < 2; form++) {
            const char *w = form ? L->wnfc[idx] : L->w[idx]; size_t wl = strlen(w);
            if (form && !strcmp(L->wnfc[idx], L->w[idx])) break;
            for (size_t cut = (size_t)u8len((unsigned char)w[0]); cut < wl; cut += (size_t)u8len((unsigned char)w[cut])) {
                char t[128]; memcpy(t, w, cut); t[cut] = 0;
                char nf[200]; u_nfkd(t, nf, sizeof nf - 1);
                ADD(t, !strcmp(nf, L->w[idx]));      /* a cut of the composed form can never normalise to the full word, but let the rule decide */
            }
            char t[200]; size_t last = 0; for (size_t i = 0; i < wl; i += (size_t)u8len((unsigned char)w[i])) last = i;
            snprintf(t, sizeof t, "%s%s", w, w + last); ADD(t, 0);
        }
    }
    return nv;
#undef ADD
}

static void make_valid(unsigned c[16], int p, unsigned idx) {
    if (p > 0) { c[p] = idx; c[0] = 0; c[0] = ref_eval(c); return; }
    for (unsigned v = 0; v < 2048; v++) { c[15] = v; c[0] = 0; if (ref_eval(c) == idx) { c[0] = idx; return; } }
}
static int POS[4] = { 15, 0, 8, 1 }, NPOS = 1;

static int more_checks(struct res *r, const char *ph, int li, const char *rep) {
    const polyseed_lang *lo_ = NULL; polyseed_data *da = NULL; int as = polyseed_decode(ph, 0, &lo_, &da); r->calls++; r->cases++;
    uint8_t ga[32], ea[32]; memset(ga, 0, 32); memset(ea, 0, 32); if (as == POLYSEED_OK) { polyseed_store(da, ga); polyseed_free(da); }
    rseed ra; int ml = -1; int ma = ref_decode(ph, 0, -1, 7, 0, CAP, &ra, &ml); if (ma == 0) ref_storage(&ra, ea);
    if (as != ma || memcmp(ga, ea, 32) || (as == POLYSEED_OK && lang_index(lo_) != ml)) { char key[160]; snprintf(key, sizeof key, "c08:auto-model:%s:%d->%d", RL[li].code, ma, as);
        res_viol(r, key, rep, "automatic detection: reference decoder says %d (language %d), library %d (language %d)%s", ma, ml, as, as == 0 ? lang_index(lo_) : -1, as == 0 && ma == 0 && memcmp(ga, ea, 32) ? ", another seed" : ""); return 1; }
    r->validated++; return 0;
}
static void work(long lo, long hi, struct res *r, void *arg) {
    (void)arg;
    static struct var V[MAXVAR];
    for (long x = lo; x < hi; x++) {
        if ((x & 63) == 0 && past_deadline()) { r->timed_out = 1; return; }
        unsigned idx = (unsigned)(x % R_NW); int li = (int)((x / R_NW) % R_NLANG); int p = POS[x / (R_NW * R_NLANG)];
        unsigned c[16]; for (int i = 1; i < 16; i++) c[i] = (unsigned)((idx * 11 + i * 257 + 2 * li) & 2046);
        make_valid(c, p, idx);
        rseed want; ref_from_coeffs(c, &want);
        if (want.features & 8) { c[2] ^= 1; make_valid(c, p, idx); ref_from_coeffs(c, &want); if (want.features & 8) continue; }   /* p == 2 and idx odd: reserved bit, skip (C10 owns it) */
        uint8_t exp[32]; ref_storage(&want, exp);
        int nv = gen_variants(li, idx, V);
        for (int v = 0; v < nv; v++) {
            char ph[2600] = ""; char rep[2700], key[160];
            for (int i = 0; i < 16; i++) { if (i) strcat(ph, " "); strcat(ph, i == p ? V[v].tok : RL[li].w[c[i]]); }
            snprintf(rep, sizeof rep, "case %d %d %s", li, V[v].permitted, ph);
            extern char *G_cur; if (G_cur) { strncpy(G_cur, rep, 1999); G_cur[1999] = 0; }
            polyseed_data *d = NULL; int st = polyseed_decode_explicit(ph, 0, polyseed_get_lang(li), &d); r->calls++; r->cases++;
            uint8_t got[32]; memset(got, 0, 32);
            if (st == POLYSEED_OK) { polyseed_store(d, got); polyseed_free(d); r->calls += 2; }
            r->digest ^= mix64((uint64_t)x * 1024 + (unsigned)v, st);
            int same = (st == POLYSEED_OK && !memcmp(got, exp, 32));
            if (V[v].permitted && !same) { snprintf(key, sizeof key, "c08:permitted-rejected:%s", RL[li].code); res_viol(r, key, rep, "token \"%s\" is a permitted spelling of \"%s\" (%s) but decode_explicit returned %d%s", V[v].tok, RL[li].w[idx], RL[li].code, st, st == 0 ? " with a different seed" : ""); continue; }
            if (!V[v].permitted && same) { snprintf(key, sizeof key, "c08:forbidden-accepted:%s", RL[li].code); res_viol(r, key, rep, "token \"%s\" must not be accepted for \"%s\" (%s) but the phrase decoded to that word", V[v].tok, RL[li].w[idx], RL[li].code); continue; }
            if (!V[v].permitted && st != POLYSEED_ERR_LANG && st != POLYSEED_ERR_CHECKSUM) { snprintf(key, sizeof key, "c08:forbidden-status:%s", RL[li].code); res_viol(r, key, rep, "token \"%s\": unexpected status %d", V[v].tok, st); continue; }
            rseed rs; int ms = ref_decode(ph, 0, li, 7, 0, CAP, &rs, NULL);
            if (ms != st) { snprintf(key, sizeof key, "c08:model:%s:%d->%d", RL[li].code, ms, st); res_viol(r, key, rep, "token \"%s\" for \"%s\": reference decoder says %d, library %d", V[v].tok, RL[li].w[idx], ms, st); continue; }
            r->validated++; r->cls[same ? 0 : st == POLYSEED_ERR_LANG ? 1 : 2]++;
            /* the same phrase through automatic detection: the reference detector decides status, language and seed */
            if (more_checks(r, ph, li, rep)) continue;
            /* the word itself, typed in full, earlier in the same phrase (checksum recomputed as if the variant were the word): a token is
             * judged on its own bytes, whatever else the phrase contains */
            if (!V[v].permitted) {
                unsigned c2[16]; memcpy(c2, c, sizeof c2); int q = p >= 8 ? p - 8 : p + 7; if (q == 0) q = 3;
                c2[q] = idx; if (q == 2 && (idx & 1)) c2[q] = idx ^ 1; if (p > 0) { c2[0] = 0; c2[0] = ref_eval(c2); }
                char ph2[2600] = ""; for (int i = 0; i < 16; i++) { if (i) strcat(ph2, " "); strcat(ph2, i == p ? V[v].tok : RL[li].w[c2[i]]); }
                char rep2[2700]; snprintf(rep2, sizeof rep2, "case %d 0 %s", li, ph2);
                polyseed_data *d2 = NULL; int s2 = polyseed_decode_explicit(ph2, 0, polyseed_get_lang(li), &d2); r->calls++; r->cases++;
                if (s2 == POLYSEED_OK) polyseed_free(d2);
                rseed r2; int m2 = ref_decode(ph2, 0, li, 7, 0, CAP, &r2, NULL);
                if (s2 != m2) { snprintf(key, sizeof key, "c08:twin:%s:%d->%d", RL[li].code, m2, s2); res_viol(r, key, rep2, "token \"%s\" after the full word \"%s\" earlier in the phrase: reference decoder says %d, library %d", V[v].tok, RL[li].w[idx], m2, s2); continue; }
                r->validated++;
                if (more_checks(r, ph2, li, rep2)) continue;
            }
        }
    }
    if (r->nsample < 1 && lo < hi) { int li = (int)((lo / R_NW) % R_NLANG); unsigned idx = (unsigned)(lo % R_NW); int nv = gen_variants(li, idx, V); char s[300] = ""; for (int v = 0; v < nv && strlen(s) < 200; v++) { strcat(s, V[v].permitted ? "+" : "-"); strcat(s, V[v].tok); strcat(s, " "); } res_sample(r, "variants of %s word \"%s\": %s", RL[li].code, RL[li].w[idx], s); }
}

/* mixed phrases: every position carries a permitted variant, in rotation */
static int pick_permitted(int li, unsigned idx, int rot, char *out) {
    static struct var V[MAXVAR]; int nv = gen_variants(li, idx, V), np = 0;
    for (int v = 0; v < nv; v++) if (V[v].permitted) np++;
    if (!np) return 0;
    int want = rot % np;
    for (int v = 0; v < nv; v++) if (V[v].permitted && want-- == 0) { strcpy(out, V[v].tok); return 1; }
    return 0;
}
static void work_mixed(long lo, long hi, struct res *r, void *arg) {
    (void)arg;
    for (long x = lo; x < hi; x++) {
        if ((x & 63) == 0 && past_deadline()) { r->timed_out = 1; return; }
        int li = (int)(x % R_NLANG); long y = x / R_NLANG;
        uint64_t ps = 0x1234 + (uint64_t)y * 7919 + (uint64_t)G_seed;
        unsigned c[16]; for (int i = 1; i < 16; i++) c[i] = (unsigned)(prng(&ps) & 2047); c[2] &= ~1u;
        c[(y % 15) + 1] = (unsigned)((y / 15) % 2048); c[2] &= ~1u;
        c[0] = 0; c[0] = ref_eval(c);
        rseed want; ref_from_coeffs(c, &want); uint8_t exp[32]; ref_storage(&want, exp);
        char ph[2600] = "", tok[128];
        for (int i = 0; i < 16; i++) { if (i) strcat(ph, " "); if (!pick_permitted(li, c[i], (int)(y * 5 + i * 3), tok)) strcpy(tok, RL[li].w[c[i]]); strcat(ph, tok); }
        char rep[2700]; snprintf(rep, sizeof rep, "case %d 1 %s", li, ph);
        polyseed_data *d = NULL; int st = polyseed_decode_explicit(ph, 0, polyseed_get_lang(li), &d); r->calls++; r->cases++;
        uint8_t got[32]; memset(got, 0, 32); if (st == POLYSEED_OK) { polyseed_store(d, got); polyseed_free(d); }
        r->digest ^= mix64(x, st);
        if (st != POLYSEED_OK || memcmp(got, exp, 32)) { char key[100]; snprintf(key, sizeof key, "c08:mixed:%s", RL[li].code); res_viol(r, key, rep, "phrase made only of permitted spellings returned %d%s", st, st == 0 ? " with a different seed" : ""); continue; }
        /* automatic detection must agree or say multiple languages */
        const polyseed_lang *lo_ = NULL; d = NULL; int as = polyseed_decode(ph, 0, &lo_, &d); r->calls++;
        if (as == POLYSEED_OK) { polyseed_store(d, got); polyseed_free(d); }
        if (!((as == POLYSEED_OK && lo_ == polyseed_get_lang(li) && !memcmp(got, exp, 32)) || (as == POLYSEED_ERR_MULT_LANG && ref_count_langs(ph, CAP, NULL) >= 2))) { char key[100]; snprintf(key, sizeof key, "c08:mixed-auto:%s", RL[li].code); res_viol(r, key, rep, "auto decode of a phrase of permitted spellings returned %d", as); continue; }
        r->validated++; r->cls[3]++;
        if (r->nsample < 1) res_sample(r, "mixed %s phrase: %.200s", RL[li].code, ph);
    }
}

int main(int argc, char **argv) {
    int a = common_args(argc, argv);
    ref_init(VERIF_ROOT); sec_mark_initial(); env_init(); inject(0);
    polyseed_enable_features(7);
    struct res *r = calloc(1, sizeof *r);
    if (a < argc && !strcmp(argv[a], "case")) {   /* case <lang> <permitted> <phrase...> */
        int li = atoi(argv[a + 1]);
        char ph[2600] = ""; for (int i = a + 3; i < argc; i++) { if (i > a + 3) strcat(ph, " "); strcat(ph, argv[i]); }
        polyseed_data *d = NULL; rseed want; int st = polyseed_decode_explicit(ph, 0, polyseed_get_lang(li), &d);
        int rs = ref_decode(ph, 0, li, 7, 0, CAP, &want, NULL);
        uint8_t got[32] = {0}, exp[32] = {0}; if (st == 0) polyseed_store(d, got); if (rs == 0) ref_storage(&want, exp);
        printf("decode_explicit(\"%s\") -> %d ; reference -> %d ; same seed: %s\n", ph, st, rs, memcmp(got, exp, 32) ? "no" : "yes");
        if (st != rs || memcmp(got, exp, 32)) { printf("REPRODUCED\n"); return 1; }
        { struct res *rr = calloc(1, sizeof *rr); if (more_checks(rr, ph, li, "")) { printf("REPRODUCED %s\n", rr->v[0].msg); return 1; } }
        return 0;
    }
    NPOS = G_thorough ? 4 : 2;
    out_begin();
    par_run((long)NPOS * R_NLANG * R_NW, work, NULL, r);
    out_part("every word x every prefix length x accent subsets x NFD/NFC x continuations", r, CLS, G_thorough ? "variant placed at positions 16, 1 (check word), 9 and 2" : "variant placed at positions 16 and 1 (check word: the first token a detector sees)");
    memset(r, 0, sizeof *r); par_run((long)R_NLANG * (G_thorough ? 15 * 2048 : 15 * 256), work_mixed, NULL, r);
    out_part("mixed phrases: all 16 positions carry permitted variants in rotation", r, CLS, "");
    out_end();
    return 0;
}
