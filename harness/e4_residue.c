/* E4: residue scanner (C16).  Every API function x every exit is executed on a dedicated, pre-painted
 * stack; after the call returns the whole dead stack and the library's writable sections are searched
 * for copies of the secret bytes, the encryption mask, the password (raw and NFKD), the phrase words
 * (NFC and NFKD) and adjacent pairs of word indices (2-, 4- and 8-byte encodings); a seed block must be
 * all zero, and covered by an earlier injected memzero call, at the moment the injected free gets it.
 * The dependency callbacks repaint the stack below their own frame before returning, so only the
 * library's own dead frames keep their contents. */
#include "h.h"
#include <ucontext.h>

#define PAINT 0xA5
#define STK (256 * 1024)
static uint8_t *stk; static ucontext_t mainc, cc;

/* ---- dependencies (own table: the callbacks must leave nothing behind) */
static uint8_t T_RND[32], T_MASK[32]; static uint64_t T_CLOCK; static long T_FAIL;   /* T_FAIL: fail the next allocation */
static size_t RET;
static __attribute__((noinline)) void repaint(void) { volatile uint8_t pad[49152]; for (size_t i = 0; i < sizeof pad; i++) pad[i] = PAINT; __asm__ volatile("" ::"r"(pad) : "memory"); }
static __attribute__((noinline)) void rb_in(void *p, size_t n) { memcpy(p, T_RND, n); }
static void d_rand(void *p, size_t n) { rb_in(p, n); repaint(); }
static __attribute__((noinline)) void kdf_in(const uint8_t *pw, size_t pl, const uint8_t *s, size_t sl, uint64_t it, uint8_t *k, size_t kl) {
    (void)pw; (void)pl; (void)s; (void)it;
    if (sl == 16) memcpy(k, T_MASK, kl < 32 ? kl : 32); else memset(k, 0x11, kl);
}
static void d_kdf(const uint8_t *pw, size_t pl, const uint8_t *s, size_t sl, uint64_t it, uint8_t *k, size_t kl) { kdf_in(pw, pl, s, sl, it, k, kl); repaint(); }
static struct { void *p; size_t n; } MZ[64]; static int NMZ;
static void d_memzero(void *const p, const size_t n) { if (NMZ < 64) { MZ[NMZ].p = p; MZ[NMZ].n = n; NMZ++; } volatile uint8_t *q = p; for (size_t i = 0; i < n; i++) q[i] = 0; }
static __attribute__((noinline)) void nfc_in(const char *s, char *o) { RET = u_nfc(s, o, CAP); }
static __attribute__((noinline)) void nfkd_in(const char *s, char *o) { RET = u_nfkd(s, o, CAP); }
static int NFC_FAILS;   /* the composing callback reports failure: writes nothing, returns (size_t)-1 */
static size_t d_nfc(const char *s, polyseed_str o) { if (NFC_FAILS) { o[0] = 0; return (size_t)-1; } nfc_in(s, o); repaint(); return RET; }
static size_t d_nfkd(const char *s, polyseed_str o) { nfkd_in(s, o); repaint(); return RET; }
static uint64_t d_time(void) { return T_CLOCK; }
static struct { void *p; size_t n; } BLK[16]; static int NBLK; static int ERR_DIRTY, ERR_UNWIPED, ERR_FOREIGN;
static void *d_alloc(size_t n) { if (T_FAIL) { T_FAIL = 0; return NULL; } void *p = malloc(n); memset(p, 0xDD, n); BLK[NBLK].p = p; BLK[NBLK].n = n; NBLK++; return p; }
static void d_free(void *p) {
    for (int i = 0; i < NBLK; i++) if (BLK[i].p == p) {
        const uint8_t *q = p; int dirty = 0; for (size_t j = 0; j < BLK[i].n; j++) dirty |= q[j];
        int wiped = 0; for (int k = 0; k < NMZ; k++) if ((char *)MZ[k].p <= (char *)p && (char *)MZ[k].p + MZ[k].n >= (char *)p + BLK[i].n) wiped = 1;
        if (dirty) ERR_DIRTY++; if (!wiped) ERR_UNWIPED++;
        BLK[i] = BLK[--NBLK]; free(p); return;
    }
    ERR_FOREIGN++;
}
static const polyseed_dependency E4DEPS = { d_rand, d_kdf, d_memzero, d_nfc, d_nfkd, d_time, d_alloc, d_free };

/* ---- job executed on the dedicated stack */
enum { F_CREATE, F_LOAD, F_DECODE, F_DECODE_EX, F_ENCODE, F_CRYPT, F_KEYGEN, F_STORE, F_FREE, F_GETTERS };
static const char *FNAME[] = { "create", "load", "decode", "decode_explicit", "encode", "crypt", "keygen", "store", "free", "getters" };
static struct job { int fn; polyseed_data *S, *S2; char *phrase; char *out; char *pw; uint8_t *storage; uint8_t *key; int R; int lang; unsigned coin; unsigned feat; uint64_t u; } J;
static __attribute__((optimize("O0"), noinline)) void body(void) {
    struct job *volatile j = &J;
    switch (j->fn) {
    case F_CREATE: j->R = polyseed_create(j->feat, &j->S2); break;
    case F_LOAD: j->R = polyseed_load(j->storage, &j->S2); break;
    case F_DECODE: { static const polyseed_lang *l; j->R = polyseed_decode(j->phrase, (polyseed_coin)j->coin, &l, &j->S2); } break;
    case F_DECODE_EX: j->R = polyseed_decode_explicit(j->phrase, (polyseed_coin)j->coin, polyseed_get_lang(j->lang), &j->S2); break;
    case F_ENCODE: polyseed_encode(j->S, polyseed_get_lang(j->lang), (polyseed_coin)j->coin, j->out); break;
    case F_CRYPT: polyseed_crypt(j->S, j->pw); break;
    case F_KEYGEN: polyseed_keygen(j->S, (polyseed_coin)j->coin, 32, j->key); break;
    case F_STORE: polyseed_store(j->S, j->storage); break;
    case F_FREE: polyseed_free(j->S); break;
    case F_GETTERS: j->u = polyseed_get_birthday(j->S) + polyseed_get_feature(j->S, 7) + (uint64_t)polyseed_is_encrypted(j->S); break;
    }
}
static void run_on_stack(void) {
    memset(stk, PAINT, STK); NMZ = 0;
    /* no harness value may travel in a callee-saved register into the library's prologues */
    __asm__ volatile("xor %%ebx,%%ebx\n\txor %%r12d,%%r12d\n\txor %%r13d,%%r13d\n\txor %%r14d,%%r14d\n\txor %%r15d,%%r15d" ::: "rbx", "r12", "r13", "r14", "r15");
    getcontext(&cc); cc.uc_stack.ss_sp = stk; cc.uc_stack.ss_size = STK; cc.uc_link = &mainc; makecontext(&cc, body, 0);
    swapcontext(&mainc, &cc);
}

/* ---- needles */
struct needle { uint8_t b[40]; size_t n; char what[48]; };
static struct needle ND[400]; static int NND;
static void nd_add(const void *p, size_t n, const char *what) { if (NND < 400 && n <= 40 && n >= 4) { memcpy(ND[NND].b, p, n); ND[NND].n = n; snprintf(ND[NND].what, 48, "%s", what); NND++; } }
static void nd_windows(const uint8_t *p, size_t len, size_t win, const char *what) { for (size_t i = 0; i + win <= len; i++) { int flat = 1; for (size_t k = 1; k < win; k++) if (p[i + k] != p[i]) flat = 0; if (!flat) nd_add(p + i, win, what); } }
static void nd_phrase_words(const char *ph, const char *what) {       /* one needle per word of >= 5 bytes (first 24 bytes of it) */
    char buf[2048]; strncpy(buf, ph, sizeof buf - 1); buf[sizeof buf - 1] = 0;
    for (char *q = buf; (q = strstr(q, "\xE3\x80\x80")); ) { q[0] = ' '; memmove(q + 1, q + 3, strlen(q + 3) + 1); }
    for (char *t = strtok(buf, " "); t; t = strtok(NULL, " ")) {
        size_t l = strlen(t); if (l >= 5) nd_add(t, l > 24 ? 24 : l, what);
        /* the same word with every non-ASCII byte removed (what an accent-folding search may copy around) */
        char a[64]; size_t al = 0; int had = 0; for (size_t i = 0; i < l && al < 60; i++) { if ((uint8_t)t[i] & 0x80) had = 1; else a[al++] = t[i]; }
        if (had && al >= 5) { char w2[64]; snprintf(w2, sizeof w2, "%s, accents removed", what); nd_add(a, al > 24 ? 24 : al, w2); }
    }
}
static void nd_indices(const unsigned idx[16], const char *what) {
    for (int i = 0; i + 1 < 16; i++) {
        if (idx[i] < 16 && idx[i + 1] < 16) continue;
        uint64_t a8[2] = { idx[i], idx[i + 1] }; uint32_t a4[2] = { idx[i], idx[i + 1] }; uint16_t a2[2] = { (uint16_t)idx[i], (uint16_t)idx[i + 1] };
        nd_add(a8, 16, what); nd_add(a4, 8, what); if (idx[i] > 255 && idx[i + 1] > 255) nd_add(a2, 4, what);
    }
}
static long find(const uint8_t *h, size_t hn, const uint8_t *n, size_t nn, size_t *where) { long c = 0; for (size_t i = 0; i + nn <= hn; i++) if (h[i] == n[0] && !memcmp(h + i, n, nn)) { if (!c && where) *where = i; c++; } return c; }

static uint64_t BYTES_SCANNED; static long CELLS, CALLS;
static char CELLS_SEEN[128][48]; static int NCELLS_SEEN;
static struct res *R; static const char *BUILD = "?";
static int SEEDNO;

static void scan(const char *cell) {
    CALLS++;
    int seen = 0; for (int i = 0; i < NCELLS_SEEN; i++) if (!strcmp(CELLS_SEEN[i], cell)) seen = 1;
    if (!seen && NCELLS_SEEN < 128) strcpy(CELLS_SEEN[NCELLS_SEEN++], cell);
    R->cases++; R->calls++;
    static uint8_t *sec; size_t ss = sec_size(); if (!sec) sec = malloc(ss + 16); sec_save(sec);
    BYTES_SCANNED += STK + ss;
    char key[160], rep[100]; snprintf(rep, sizeof rep, "case %s %d", cell, SEEDNO);
    int bad = 0;
    for (int i = 0; i < NND; i++) {
        size_t where = 0; long c = find(stk, STK, ND[i].b, ND[i].n, &where);
        if (c) { snprintf(key, sizeof key, "c16:stack:%s:%s", cell, ND[i].what); res_viol(R, key, rep, "after %s returned, %ld copies of %s (%zu-byte needle) remain on the dead stack, first %zu bytes below the stack top [build %s]", cell, c, ND[i].what, ND[i].n, (size_t)STK - where, BUILD); bad = 1; }
        c = find(sec, ss, ND[i].b, ND[i].n, NULL);
        if (c) { snprintf(key, sizeof key, "c16:static:%s:%s", cell, ND[i].what); res_viol(R, key, rep, "after %s returned, %s remains in the library's static data [build %s]", cell, ND[i].what, BUILD); bad = 1; }
    }
    if (ERR_DIRTY || ERR_UNWIPED || ERR_FOREIGN) { snprintf(key, sizeof key, "c16:free:%s", cell); res_viol(R, key, rep, "%s: seed block handed to free %s%s [build %s]", cell, ERR_DIRTY ? "while still holding non-zero bytes " : "", ERR_UNWIPED ? "without a covering call of the injected memzero" : "", BUILD); ERR_DIRTY = ERR_UNWIPED = ERR_FOREIGN = 0; bad = 1; }
    if (!bad) R->validated++;
}
static void call(int fn, const char *exitname, int expect_status) {
    char cell[48]; snprintf(cell, sizeof cell, "%s/%s", FNAME[fn], exitname);
    J.fn = fn; J.R = -1; J.S2 = NULL;
    run_on_stack();
    if (expect_status >= 0 && J.R != expect_status) { char key[100]; snprintf(key, sizeof key, "harness:e4-exit:%s", cell); res_viol(R, key, "", "%s: expected status %d to reach this exit, got %d [build %s]", cell, expect_status, J.R, BUILD); return; }
    scan(cell);
}

int main(int argc, char **argv) {
    int a = common_args(argc, argv);
    ref_init(VERIF_ROOT);
    R = calloc(1, sizeof *R);
    const char *only = NULL; int only_seed = -1;
    if (a < argc && !strcmp(argv[a], "--build")) { BUILD = argv[a + 1]; a += 2; }
    if (a < argc && !strcmp(argv[a], "case")) { only = argv[a + 1]; only_seed = atoi(argv[a + 2]); }
    polyseed_inject(&E4DEPS);
    stk = malloc(STK);
    J.out = malloc(2048); J.phrase = malloc(2048); J.pw = malloc(128); J.storage = malloc(32); J.key = malloc(32);
    int NSEED = G_thorough ? 8 : 2;
    uint64_t ps = 0xE4E4 + (uint64_t)G_seed;
    for (SEEDNO = 0; SEEDNO < NSEED; SEEDNO++) {
        if (only && SEEDNO != only_seed) { for (int i = 0; i < 64 + 32; i++) prng(&ps); continue; }
        for (int i = 0; i < 32; i++) T_RND[i] = (uint8_t)(prng(&ps) >> 11);
        for (int i = 0; i < 32; i++) T_MASK[i] = (uint8_t)(prng(&ps) >> 13);
        T_CLOCK = R_EPOCH + (prng(&ps) % 1000) * R_STEP + 99;
        polyseed_enable_features(7);
        rseed rs; memset(&rs, 0, sizeof rs); memcpy(rs.secret, T_RND, 19); rs.secret[18] &= 0x3F; rs.birthday = ref_birthday_index(T_CLOCK); rs.features = 5;
        unsigned idx[16]; ref_coeffs(&rs, idx);
        static const char *PW[2] = { "correct horse battery", "c\xC3\xB3rr\xC3\xA9" "ct h\xC3\xB6rse b\xC3\xA4tt\xC3\xA9ry" };
        /* needles common to every call of this seed */
        NND = 0;
        nd_windows(rs.secret, 19, 8, "secret-bytes"); nd_windows(T_MASK, 32, 8, "encryption-mask"); nd_indices(idx, "word-index-pair");
        { rseed e = rs; ref_crypt(&e, T_MASK); nd_windows(e.secret, 19, 8, "encrypted-secret-bytes"); unsigned ie[16]; ref_coeffs(&e, ie); nd_indices(ie, "word-index-pair(encrypted)"); }
        int base_nd = NND;
#define WANT(c) (!only || !strcmp(only, c))
        /* ---- create */
        if (WANT("create/ok")) { J.feat = 5; T_FAIL = 0; call(F_CREATE, "ok", POLYSEED_OK); if (J.S2) { J.S = J.S2; NND = base_nd; call(F_FREE, "ok", -1); } }
        if (WANT("create/unsupported")) { polyseed_enable_features(0); J.feat = 5; call(F_CREATE, "unsupported", POLYSEED_ERR_UNSUPPORTED); polyseed_enable_features(7); }
        if (WANT("create/memory")) { J.feat = 5; T_FAIL = 1; call(F_CREATE, "memory", POLYSEED_ERR_MEMORY); T_FAIL = 0; }
        /* a live seed for the remaining calls */
        polyseed_data *seed = NULL; J.feat = 5; if (polyseed_create(5, &seed) != POLYSEED_OK) { res_viol(R, "harness:e4-create", "", "cannot create"); break; }
        /* ---- store / keygen / getters */
        J.S = seed; J.coin = 1;
        if (WANT("store/ok")) call(F_STORE, "ok", -1);
        if (WANT("keygen/ok")) call(F_KEYGEN, "ok", -1);
        if (WANT("getters/ok")) call(F_GETTERS, "ok", -1);
        /* the caller's buffers at odd addresses (byte buffers have no alignment): a staging copy made for alignment's sake is a temporary like any other */
        { uint8_t *ks = J.storage, *kk = J.key; char *ko = J.out; static uint8_t odd_st[48], odd_key[48]; static char odd_out[2100];
          J.storage = odd_st + 1; J.key = odd_key + 3; J.out = odd_out + 1;
          if (WANT("store/unaligned-buffer")) call(F_STORE, "unaligned-buffer", -1);
          if (WANT("keygen/unaligned-key")) call(F_KEYGEN, "unaligned-key", -1);
          J.lang = 0; if (WANT("encode/unaligned-output")) call(F_ENCODE, "unaligned-output", -1);
          polyseed_store(seed, J.storage); J.S2 = NULL; if (WANT("load/unaligned-buffer")) { call(F_LOAD, "unaligned-buffer", POLYSEED_OK); if (J.S2) { polyseed_free(J.S2); J.S2 = NULL; } }
          J.storage = ks; J.key = kk; J.out = ko; }
        uint8_t good[32]; polyseed_store(seed, good);
        /* ---- load */
        struct { const char *name; int st; int byte; uint8_t xorv; int fail; unsigned mask; } LD[] = {
            { "ok", POLYSEED_OK, -1, 0, 0, 7 }, { "memory", POLYSEED_ERR_MEMORY, -1, 0, 1, 7 }, { "format-header", POLYSEED_ERR_FORMAT, 0, 1, 0, 7 }, { "format-topbit", POLYSEED_ERR_FORMAT, 9, 0x80, 0, 7 },
            { "format-secret", POLYSEED_ERR_FORMAT, 28, 0x80, 0, 7 }, { "format-extra", POLYSEED_ERR_FORMAT, 29, 0xFF, 0, 7 }, { "format-footer", POLYSEED_ERR_FORMAT, 31, 0x80, 0, 7 },
            { "checksum", POLYSEED_ERR_CHECKSUM, 30, 1, 0, 7 }, { "unsupported", POLYSEED_ERR_UNSUPPORTED, -1, 0, 0, 0 } };
        for (unsigned k = 0; k < sizeof LD / sizeof *LD; k++) {
            char cell[48]; snprintf(cell, sizeof cell, "load/%s", LD[k].name); if (!WANT(cell)) continue;
            memcpy(J.storage, good, 32); if (LD[k].byte >= 0) J.storage[LD[k].byte] ^= LD[k].xorv;
            polyseed_enable_features(LD[k].mask); T_FAIL = LD[k].fail;
            call(F_LOAD, LD[k].name, LD[k].st); T_FAIL = 0; polyseed_enable_features(7);
            if (J.S2) polyseed_free(J.S2);
        }
        /* ---- encode */
        static const int ENC_LANGS[] = { 0, 1, 2, 3, 8 };
        for (unsigned k = 0; k < sizeof ENC_LANGS / sizeof *ENC_LANGS; k++) {
            int li = ENC_LANGS[k]; char cell[48]; snprintf(cell, sizeof cell, "encode/%s", RL[li].compose ? (li == 1 ? "composing-jp" : li == 2 ? "composing-ko" : "composing-es") : (li == 0 ? "plain-en" : "plain-zh")); if (!WANT(cell)) continue;
            char ph[2048]; NND = base_nd; ref_phrase(&rs, li, 1, ph, 1); nd_phrase_words(ph, "phrase-word(stored form)"); ref_phrase(&rs, li, 1, ph, 0); nd_phrase_words(ph, "phrase-word(output form)");
            /* the output buffer legitimately holds the phrase: it lives on the heap */
            J.S = seed; J.lang = li; J.coin = 1; call(F_ENCODE, cell + 7, -1);
        }
        NND = base_nd;
        if (WANT("encode/nfc-callback-fails")) {     /* the phrase and the indices must be wiped on this exit too */
            char ph[2048]; ref_phrase(&rs, 2, 1, ph, 1); nd_phrase_words(ph, "phrase-word(stored form)");
            J.S = seed; J.lang = 2; J.coin = 1; NFC_FAILS = 1; call(F_ENCODE, "nfc-callback-fails", -1); NFC_FAILS = 0;
        }
        NND = base_nd;
        /* ---- decoders */
        for (int ex = 0; ex < 2; ex++) {
            int fn = ex ? F_DECODE_EX : F_DECODE;
            static const int DEC_LANGS[] = { 0, 3, 2, 8 };      /* plain, accents, composing, unsorted list */
            for (unsigned k = 0; k < 4; k++) {
                int li = DEC_LANGS[k]; char good_ph[2048]; ref_phrase(&rs, li, 1, good_ph, 0);
                struct { const char *name; int st; int fail; unsigned mask; unsigned coin; int mut; } DC[] = {
                    { "ok", POLYSEED_OK, 0, 7, 1, 0 }, { "num_words", POLYSEED_ERR_NUM_WORDS, 0, 7, 1, 1 }, { "lang", POLYSEED_ERR_LANG, 0, 7, 1, 2 },
                    { "checksum", POLYSEED_ERR_CHECKSUM, 0, 7, 2, 0 }, { "memory", POLYSEED_ERR_MEMORY, 1, 7, 1, 0 }, { "unsupported", POLYSEED_ERR_UNSUPPORTED, 0, 0, 1, 0 },
                    { "too_many_words", POLYSEED_ERR_NUM_WORDS, 0, 7, 1, 3 } };
                for (unsigned c = 0; c < sizeof DC / sizeof *DC; c++) {
                    char cell[48]; snprintf(cell, sizeof cell, "%s/%s-%s", FNAME[fn], DC[c].name, RL[li].code); if (!WANT(cell)) continue;
                    strcpy(J.phrase, good_ph);
                    if (DC[c].mut == 1) *strrchr(J.phrase, ' ') = 0;                         /* 15 words */
                    if (DC[c].mut == 3) { char extra[300]; char *sp = strchr(J.phrase, ' '); size_t k = sp ? (size_t)(sp - J.phrase) : strlen(J.phrase); memcpy(extra, J.phrase, k); extra[k] = 0; strcat(J.phrase, " "); strcat(J.phrase, extra); strcat(J.phrase, " "); strcat(J.phrase, extra); }   /* 18 words: the first word twice more */
                    if (DC[c].mut == 2) { char *sp = strrchr(J.phrase, ' '); strcpy(sp + 1, "qzqzqzq"); }   /* unknown last word */
                    NND = base_nd; { char nf[2048]; u_nfkd(J.phrase, nf, sizeof nf - 1); nd_phrase_words(nf, "phrase-word(NFKD)"); nd_phrase_words(J.phrase, "phrase-word(as typed)"); }
                    /* the caller's own copy of the phrase is on the heap (J.phrase) */
                    polyseed_enable_features(DC[c].mask); T_FAIL = DC[c].fail; J.coin = DC[c].coin; J.lang = li;
                    char ename[40]; snprintf(ename, sizeof ename, "%s-%s", DC[c].name, RL[li].code);
                    call(fn, ename, DC[c].st); T_FAIL = 0; polyseed_enable_features(7);
                    if (J.S2) polyseed_free(J.S2);
                }
            }
        }
        /* multiple languages: a phrase of characters shared by both Chinese lists */
        if (WANT("decode/mult_lang-zh")) {
            unsigned cand[R_NW]; int nc = 0; for (unsigned i = 0; i < R_NW; i++) if (ref_recognise(9, RL[8].w[i]) >= 0) cand[nc++] = i;
            for (int attempt = 0; attempt < 5000 && nc > 16; attempt++) {
                unsigned c[16]; for (int i = 1; i < 16; i++) c[i] = cand[prng(&ps) % (unsigned)nc]; if (c[2] & 1) continue; c[0] = 0; c[0] = ref_eval(c);
                int ok = 0; for (int i = 0; i < nc; i++) if (cand[i] == c[0]) ok = 1; if (!ok) continue;
                ref_phrase_from_idx(c, 8, J.phrase, 0); NND = base_nd; nd_indices(c, "word-index-pair(zh phrase)");
                J.coin = 0; call(F_DECODE, "mult_lang-zh", POLYSEED_ERR_MULT_LANG); break;
            }
        }
        NND = base_nd;
        /* ---- crypt */
        static char LONGPW[2][600]; if (!LONGPW[0][0]) { for (int i = 0; i < 400; i++) LONGPW[0][i] = (char)('!' + (i * 7 + i / 13) % 90); for (int i = 0; i < 150; i++) { LONGPW[1][2 * i] = (char)0xC3; LONGPW[1][2 * i + 1] = (char)(0xA0 + (i * 5) % 30); } }
        for (int k = 0; k < 4; k++) {
            static const char *CN[4] = { "ascii-password", "non-ascii-password", "long-ascii-password", "long-non-ascii-password" };
            const char *PWk = k < 2 ? PW[k] : LONGPW[k - 2];
            char cell[48]; snprintf(cell, sizeof cell, "crypt/%s", CN[k]); if (!WANT(cell)) continue;
            J.pw = realloc(J.pw, 700); strcpy(J.pw, PWk); NND = base_nd; { size_t L = strlen(PWk); if (L <= 40) nd_windows((const uint8_t *)PWk, L, 8, "password"); else for (size_t o2 = 0; o2 + 12 <= L && NND < 380; o2 += 9) nd_add(PWk + o2, 12, "password"); }
            { char nf[700]; size_t nl = u_nfkd(PWk, nf, sizeof nf - 1); if (nl <= 60) nd_windows((const uint8_t *)nf, nl, 8, "password(NFKD)"); else for (size_t o2 = 0; o2 + 12 <= nl && o2 < 543 && NND < 395; o2 += 29) nd_add(nf + o2, 12, "password(NFKD)"); }
            J.S = seed; call(F_CRYPT, CN[k], -1);
            polyseed_crypt(seed, PWk);   /* back to the plain seed */
        }
        NND = base_nd;
        /* ---- the same calls on seed objects with another history: after one password operation (encrypted), after two (decrypted again),
         * a seed that came out of a decoder, a seed that was loaded.  What a call leaves behind may depend on what was done to the object before. */
        for (int h = 0; h < 4; h++) {
            static const char *HN[4] = { "after-crypt", "after-decrypt", "decoded-seed", "loaded-seed" };
            char c1[48], c2[48], c3[48], c4[48]; snprintf(c1, 48, "store/%s", HN[h]); snprintf(c2, 48, "keygen/%s", HN[h]); snprintf(c3, 48, "encode/%s", HN[h]); snprintf(c4, 48, "crypt/%s", HN[h]);
            if (!WANT(c1) && !WANT(c2) && !WANT(c3) && !(h >= 2 && WANT(c4))) continue;
            polyseed_data *hs = seed; rseed cur = rs;
            if (h == 0) { polyseed_crypt(seed, PW[0]); ref_crypt(&cur, T_MASK); }
            if (h == 1) { polyseed_crypt(seed, PW[0]); polyseed_crypt(seed, PW[0]); }
            if (h == 2) { char ph[2048]; ref_phrase(&rs, 0, 1, ph, 0); hs = NULL; if (polyseed_decode_explicit(ph, 1, polyseed_get_lang(0), &hs) != POLYSEED_OK) { res_viol(R, "harness:e4-history", "", "cannot decode the seed's own phrase"); continue; } }
            if (h == 3) { hs = NULL; if (polyseed_load(good, &hs) != POLYSEED_OK) { res_viol(R, "harness:e4-history", "", "cannot load the seed's own image"); continue; } }
            J.S = hs; J.coin = 1; J.lang = 0; NND = base_nd;
            if (WANT(c1)) call(F_STORE, HN[h], -1);
            if (WANT(c2)) call(F_KEYGEN, HN[h], -1);
            if (WANT(c3)) { char ph[2048]; ref_phrase(&cur, 0, 1, ph, 0); nd_phrase_words(ph, "phrase-word(output form)"); call(F_ENCODE, HN[h], -1); NND = base_nd; }
            if (h >= 2 && WANT(c4)) { J.pw = realloc(J.pw, 700); strcpy(J.pw, PW[0]); nd_windows((const uint8_t *)PW[0], strlen(PW[0]), 8, "password"); call(F_CRYPT, HN[h], -1); NND = base_nd; }
            if (h == 0) polyseed_crypt(seed, PW[0]);
            if (h >= 2) polyseed_free(hs);
        }
        NND = base_nd;
        if (WANT("free/ok")) { J.S = seed; call(F_FREE, "ok", -1); seed = NULL; }
        if (seed) polyseed_free(seed);
    }
    if (only) { for (int i = 0; i < R->nviol; i++) printf("REPRODUCED %s: %s\n", R->v[i].key, R->v[i].msg); printf("cells run: %d\n", NCELLS_SEEN); return R->nviol ? 1 : 0; }
    res_sample(R, "cells reached in build %s: %d, e.g. %s, %s, %s", BUILD, NCELLS_SEEN, CELLS_SEEN[0], CELLS_SEEN[NCELLS_SEEN / 2], CELLS_SEEN[NCELLS_SEEN - 1]);
    static const char *CLS[] = { NULL };
    out_begin();
    char name[100]; snprintf(name, sizeof name, "residue scan, build %s: (function, exit) cells x %d seeds", BUILD, NSEED);
    out_part(name, R, CLS, "dedicated 256 KiB stack painted 0xA5; needles: secret / encrypted secret / mask / password windows (8 bytes), phrase words, adjacent word-index pairs as u16/u32/u64");
    out_kv_int("cells_reached", NCELLS_SEEN); out_kv_int("bytes_scanned", (long long)BYTES_SCANNED);
    out_end();
    return 0;
}
