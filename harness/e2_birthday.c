/* E2 family "birthday" (C11): through polyseed_create with the injected clock.
 * quick: all 1024 month boundaries on both sides + first/middle/last second + special values;
 * thorough: every second from EPOCH-STEP to EPOCH+1025*STEP (2.7e9 creates).
 * Oracle: the property's own inequalities + 128-bit reference arithmetic; for each month index the
 * birthday must survive store/load, encode/decode in every language and crypt. */
#include "h.h"

static const char *CLS[] = { "in_range(B<=t<B+step)", "before_epoch_or_error_value(B=epoch)", "beyond_range(B<=t)", "transform_preserves_birthday", NULL };
#define RANGE_END (R_EPOCH + 1024 * R_STEP)

static int check_t(uint64_t t, struct res *r) {
    E.clock[0] = t;
    polyseed_data *s = NULL;
    int st = polyseed_create(0, &s); r->calls++; r->cases++;
    char rep[64], key[64]; sprintf(rep, "case %llu", (unsigned long long)t);
    if (st != POLYSEED_OK) { res_viol(r, "c11:create", rep, "create failed %d", st); return 1; }
    uint64_t B = polyseed_get_birthday(s); r->calls++;
    polyseed_free(s); r->calls++;
    r->digest ^= mix64(t, B);
    uint64_t want = ref_birthday_time(ref_birthday_index(t));
    const char *what = NULL;
    if (B < R_EPOCH || (B - R_EPOCH) % R_STEP || (B - R_EPOCH) / R_STEP > 1023) what = "not epoch + k*step with k in 0..1023";
    else if (t == UINT64_MAX || t < R_EPOCH) { if (B != R_EPOCH) what = "clock before the epoch (or the error value) must give the epoch"; else r->cls[1]++; }
    else if (t < RANGE_END) { if (!(B <= t && t - B < R_STEP)) what = "B <= t < B + step violated inside the range"; else r->cls[0]++; }
    else { if (B > t) what = "birthday later than the creation time"; else r->cls[2]++; }
    if (!what && B != want) what = "differs from 128-bit reference arithmetic";
    if (what) { snprintf(key, sizeof key, "c11:%s", t < R_EPOCH || t == UINT64_MAX ? "pre-epoch" : t < RANGE_END ? "in-range" : "beyond"); res_viol(r, key, rep, "clock %llu -> birthday %llu (reference %llu): %s", (unsigned long long)t, (unsigned long long)B, (unsigned long long)want, what); return 1; }
    r->validated++;
    return 0;
}
static uint64_t *TV; static long NT;
static void work_list(long lo, long hi, struct res *r, void *arg) { (void)arg; for (long x = lo; x < hi; x++) check_t(TV[x], r);
    if (r->nsample < 1 && lo < hi) res_sample(r, "clock=%llu", (unsigned long long)TV[lo]); }
static void work_every(long lo, long hi, struct res *r, void *arg) {
    (void)arg; uint64_t base = R_EPOCH - R_STEP;
    for (long x = lo; x < hi; x++) { if ((x & 0xFFFFF) == 0 && past_deadline()) { r->timed_out = 1; return; } check_t(base + (uint64_t)x, r); }
    if (r->nsample < 1 && lo < hi) res_sample(r, "every second from %llu to %llu", (unsigned long long)(base + (uint64_t)lo), (unsigned long long)(base + (uint64_t)hi - 1));
}
static void work_tr(long lo, long hi, struct res *r, void *arg) {
    (void)arg;
    for (long k = lo; k < hi; k++) {
        E.clock[0] = R_EPOCH + (uint64_t)k * R_STEP + (uint64_t)(k * 2551 % R_STEP);
        for (int i = 0; i < 19; i++) E.tape[0][i] = (uint8_t)(k * 31 + i * 7);
        polyseed_data *s = NULL; char rep[64], key[64]; sprintf(rep, "tr %ld", k);
        if (polyseed_create((unsigned)k & 7, &s) != POLYSEED_OK) { res_viol(r, "c11:create", rep, "create failed"); continue; }
        uint64_t B0 = polyseed_get_birthday(s), want = R_EPOCH + (uint64_t)k * R_STEP; r->cases++; r->calls += 2;
        int bad = (B0 != want);
        /* the clock reads something else by the time the seed is restored: earlier, pre-epoch, the error value, later */
        { static const uint64_t LATER[4] = { R_EPOCH + 3, 12345, UINT64_MAX, R_EPOCH + 1023 * R_STEP + 7 }; E.clock[0] = LATER[(k + 3) & 3];      /* month index 0 meets the clock of the last month: "no birthday yet" is not a value */ }
        uint8_t st[32]; polyseed_store(s, st); polyseed_data *d = NULL;
        if (polyseed_load(st, &d) != POLYSEED_OK || polyseed_get_birthday(d) != B0) bad |= 2; if (d) polyseed_free(d);
        r->calls += 4;
        for (int li = 0; li < R_NLANG; li++) {
            polyseed_str ph; polyseed_encode(s, polyseed_get_lang(li), (polyseed_coin)(k & 2047), ph); d = NULL;
            if (polyseed_decode_explicit(ph, (polyseed_coin)(k & 2047), polyseed_get_lang(li), &d) != POLYSEED_OK || polyseed_get_birthday(d) != B0) bad |= 4; if (d) polyseed_free(d);
            r->calls += 4;
        }
        polyseed_crypt(s, "pw"); if (polyseed_get_birthday(s) != B0) bad |= 8;
        /* ... and while the seed is encrypted: its image and its phrase carry the same birthday */
        { uint8_t se[32]; polyseed_store(s, se); d = NULL; if (polyseed_load(se, &d) != POLYSEED_OK || polyseed_get_birthday(d) != B0) bad |= 16; if (d) polyseed_free(d);
          int li = (int)(k % R_NLANG); polyseed_str ph; polyseed_encode(s, polyseed_get_lang(li), (polyseed_coin)(k & 2047), ph); d = NULL; const polyseed_lang *lo_ = NULL;
          if (polyseed_decode(ph, (polyseed_coin)(k & 2047), &lo_, &d) != POLYSEED_OK || polyseed_get_birthday(d) != B0) bad |= 16; if (d) polyseed_free(d); r->calls += 6; }
        polyseed_crypt(s, "pw"); if (polyseed_get_birthday(s) != B0) bad |= 8;
        polyseed_free(s); r->calls += 5;
        r->digest ^= mix64(k, B0);
        if (bad) { snprintf(key, sizeof key, "c11:transform:%d", bad); res_viol(r, key, rep, "month index %ld: birthday %llu (expected %llu) not preserved (flags %d: 1=create 2=store/load 4=encode/decode 8=crypt 16=store/load or encode/decode of the encrypted seed)", k, (unsigned long long)B0, (unsigned long long)want, bad); }
        else { r->validated++; r->cls[3]++; }
    }
    if (r->nsample < 1 && lo < hi) res_sample(r, "month index %ld through store/load, 10 languages, crypt x2", lo);
}

/* a clock whose readings change inside one call (an intermittently failing time source): whatever the library does,
 * the birthday must be the one of some value the clock actually returned during the call */
static void flaky_clock(struct res *r) {
    static const uint64_t GOOD[] = { R_EPOCH + 25 * R_STEP + 100, R_EPOCH + 900 * R_STEP + 5, R_EPOCH + R_STEP - 1 };
    static const uint64_t ODD[] = { UINT64_MAX, 0, R_EPOCH - 1, 86400, R_EPOCH + 1023 * R_STEP + 9, R_EPOCH + 4000 * R_STEP };
    for (unsigned g = 0; g < 3; g++) for (unsigned o = 0; o < 6; o++) for (int pat = 0; pat < 6; pat++) {
        uint64_t seq[3]; for (int i = 0; i < 3; i++) seq[i] = GOOD[g]; if (pat < 3) seq[pat] = ODD[o]; else { seq[pat - 3] = ODD[o]; seq[(pat - 2) % 3] = ODD[(o + 1) % 6]; }
        memcpy(E.clock_seq, seq, sizeof seq); E.clock_seq_n = 3; E.clock_seq_i = 0; env_clear_log();
        polyseed_data *s = NULL; int st = polyseed_create(0, &s); r->cases++; r->calls++;
        char rep[120]; sprintf(rep, "flaky %llu %llu %llu", (unsigned long long)seq[0], (unsigned long long)seq[1], (unsigned long long)seq[2]);
        if (st != POLYSEED_OK) { res_viol(r, "c11:create", rep, "create failed"); continue; }
        uint64_t B = polyseed_get_birthday(s); polyseed_free(s); r->calls += 2;
        int ok = 0; unsigned long reads = E.n_time; for (unsigned long i = 0; i < reads && i < 3; i++) if (B == ref_birthday_time(ref_birthday_index(seq[i]))) ok = 1;
        r->digest ^= mix64(g * 100 + o * 10 + (uint64_t)pat, B);
        if (!ok) res_viol(r, "c11:clock-changes-between-reads", rep, "the clock returned %llu, %llu, %llu on successive reads (%lu read during create); the birthday %llu corresponds to none of the values read", (unsigned long long)seq[0], (unsigned long long)seq[1], (unsigned long long)seq[2], reads, (unsigned long long)B);
        else { r->validated++; r->cls[0]++; }
    }
    E.clock_seq_n = 0;
    /* what the clock read when the dependencies were injected is irrelevant: it fails at injection and works at creation, and the reverse */
    { static const uint64_t AT_INJECT[] = { UINT64_MAX, 0, R_EPOCH - 5, R_EPOCH + 999 * R_STEP, R_EPOCH + 10 * R_STEP }; static const uint64_t AT_CREATE[] = { R_EPOCH + 24 * R_STEP + 1234, UINT64_MAX, R_EPOCH + 3, R_EPOCH + 500 * R_STEP + 1 };
      for (unsigned i = 0; i < 5; i++) for (unsigned c = 0; c < 4; c++) { E.clock[0] = AT_INJECT[i]; inject(0); polyseed_enable_features(7); E.clock[0] = AT_CREATE[c];
          polyseed_data *s = NULL; int st = polyseed_create(0, &s); r->cases++; r->calls++; char rep[120]; snprintf(rep, sizeof rep, "atinject %llu %llu", (unsigned long long)AT_INJECT[i], (unsigned long long)AT_CREATE[c]);
          if (st != POLYSEED_OK) { res_viol(r, "c11:create", rep, "create failed %d", st); continue; }
          uint64_t B = polyseed_get_birthday(s), want = ref_birthday_time(ref_birthday_index(AT_CREATE[c])); polyseed_free(s); r->calls += 2;
          if (B != want) res_viol(r, "c11:clock-at-injection", rep, "the clock read %llu when the dependencies were injected and %llu when the seed was created: birthday %llu, expected %llu", (unsigned long long)AT_INJECT[i], (unsigned long long)AT_CREATE[c], (unsigned long long)B, (unsigned long long)want);
          else { r->validated++; r->cls[AT_CREATE[c] == UINT64_MAX || AT_CREATE[c] < R_EPOCH ? 1 : 0]++; } }
      E.clock[0] = R_EPOCH + 3 * R_STEP + 5; inject(0); polyseed_enable_features(7); }
    /* a random source that delivers 19 identical bytes (or nothing): the birthday still comes from the clock */
    for (int fill = 0; fill < 4; fill++) for (unsigned k = 0; k < 1024; k += 93) {
        uint8_t keep[32]; memcpy(keep, E.tape[0], 32); memset(E.tape[0], fill == 0 ? 0 : fill == 1 ? 0xFF : fill == 2 ? 0xAA : 0x01, 32);
        E.clock[0] = R_EPOCH + (uint64_t)k * R_STEP + 1000; polyseed_data *s = NULL; int st = polyseed_create(0, &s); r->cases++; r->calls++;
        char rep[64]; sprintf(rep, "case %llu", (unsigned long long)E.clock[0]);
        if (st != POLYSEED_OK) res_viol(r, "c11:create", rep, "create failed");
        else { uint64_t B = polyseed_get_birthday(s); polyseed_free(s); if (B != R_EPOCH + (uint64_t)k * R_STEP) res_viol(r, "c11:constant-random-source", rep, "with a random source delivering identical bytes the seed created at month %u reports birthday %llu", k, (unsigned long long)B); else { r->validated++; r->cls[0]++; } }
        memcpy(E.tape[0], keep, 32);
    }
    res_sample(r, "clock returning e.g. (valid, valid, error value) on successive reads inside one create");
}

/* the optional time entry left NULL: the library reads the C library's clock.  The process environment is part of the
 * configuration: every zone setting below x clock readings at and around every month boundary (a clock computed through
 * local-time functions is off by the zone offset, which shows within that offset of a boundary) */
static const char *ZONES[] = { NULL, "UTC0", "JST-9", "EST5EDT", "NST03:30", "<+14>-14", "<-12>12" };
static void default_clock(struct res *r) {
    polyseed_dependency d; deps_variant(0, 1, 0, 0, &d); polyseed_inject(&d);
    for (unsigned z = 0; z < sizeof ZONES / sizeof *ZONES; z++) {
        if (ZONES[z]) setenv("TZ", ZONES[z], 1); else unsetenv("TZ");
        tzset();
        for (long k = 0; k <= 1030; k++) {
            uint64_t b = R_EPOCH + (uint64_t)k * R_STEP;
            const uint64_t v[] = { b - 1, b, b + 1, b + R_STEP / 2, b - 14 * 3600, b - 14 * 3600 - 1, b + 14 * 3600 - 1, b + 14 * 3600, b - 9 * 3600, b + 5 * 3600 - 1, b - 12600, b + 12600 - 1 };
            for (unsigned i = 0; i < sizeof v / sizeof *v; i++) {
                uint64_t t = v[i]; E_libc_time_value = (time_t)t; env_clear_log();
                polyseed_data *s = NULL; int st = polyseed_create(0, &s); r->cases++; r->calls++;
                char rep[100]; snprintf(rep, sizeof rep, "libc %s %llu", ZONES[z] ? ZONES[z] : "-", (unsigned long long)t);
                if (st != POLYSEED_OK) { res_viol(r, "c11:create", rep, "create failed %d", st); continue; }
                uint64_t B = polyseed_get_birthday(s); polyseed_free(s); r->calls += 2;
                uint64_t want = ref_birthday_time(ref_birthday_index(t));
                r->digest ^= mix64(t + z, B);
                if (B != want) { char key[64]; snprintf(key, sizeof key, "c11:default-clock:%s", B > t ? "later-than-creation" : "wrong-month"); res_viol(r, key, rep, "time entry NULL, TZ=%s, C library clock %llu -> birthday %llu, expected %llu%s", ZONES[z] ? ZONES[z] : "(unset)", (unsigned long long)t, (unsigned long long)B, (unsigned long long)want, B > t ? " (later than the creation time)" : ""); }
                else if (E.n_libc_time < 1 || E.n_time) res_viol(r, "c11:default-clock:source", rep, "time entry NULL but the clock was read %lu times from libc and %lu times from the previously injected function", E.n_libc_time, E.n_time);
                else { r->validated++; r->cls[t < R_EPOCH ? 1 : t < RANGE_END ? 0 : 2]++; }
            }
        }
            /* the C library's clock reports failure: (time_t)-1 -> the epoch, like the injected clock's error value */
        { E_libc_time_value = (time_t)-1; polyseed_data *s = NULL; int st = polyseed_create(0, &s); r->cases++; r->calls++;
          char rep[100]; snprintf(rep, sizeof rep, "libc %s 18446744073709551615", ZONES[z] ? ZONES[z] : "-");
          if (st != POLYSEED_OK) res_viol(r, "c11:create", rep, "create failed %d", st);
          else { uint64_t B = polyseed_get_birthday(s); polyseed_free(s); if (B != R_EPOCH) res_viol(r, "c11:default-clock:error-value", rep, "time entry NULL and the C library clock returns (time_t)-1: birthday %llu instead of the epoch", (unsigned long long)B); else { r->validated++; r->cls[1]++; } } }
    }
    unsetenv("TZ"); tzset(); E_libc_time_value = (time_t)1700000000;
    inject(0);
    res_sample(r, "TZ=JST-9, C library clock one second before a month boundary");
}

int main(int argc, char **argv) {
    int a = common_args(argc, argv);
    ref_init(VERIF_ROOT); sec_mark_initial(); env_init(); inject(0);
    polyseed_enable_features(7);
    struct res *r = calloc(1, sizeof *r);
    if (a + 2 < argc && !strcmp(argv[a], "atinject")) { E.clock[0] = strtoull(argv[a + 1], NULL, 10); inject(0); E.clock[0] = strtoull(argv[a + 2], NULL, 10); polyseed_data *s = NULL; if (polyseed_create(0, &s) != POLYSEED_OK) { printf("REPRODUCED create failed\n"); return 1; }
        uint64_t B = polyseed_get_birthday(s), want = ref_birthday_time(ref_birthday_index(E.clock[0])); printf("birthday %llu, expected %llu\n", (unsigned long long)B, (unsigned long long)want); if (B != want) { printf("REPRODUCED c11:clock-at-injection\n"); return 1; } return 0; }
    if (a + 2 < argc && !strcmp(argv[a], "libc")) {      /* libc <zone|-> <clock> */
        polyseed_dependency d; deps_variant(0, 1, 0, 0, &d); polyseed_inject(&d);
        if (strcmp(argv[a + 1], "-")) setenv("TZ", argv[a + 1], 1); else unsetenv("TZ");
        tzset(); uint64_t t = strtoull(argv[a + 2], NULL, 10); E_libc_time_value = (time_t)t;
        polyseed_data *s = NULL; if (polyseed_create(0, &s) != POLYSEED_OK) { printf("REPRODUCED create failed\n"); return 1; }
        uint64_t B = polyseed_get_birthday(s), want = ref_birthday_time(ref_birthday_index(t));
        printf("TZ=%s libc clock %llu -> birthday %llu (reference %llu)\n", argv[a + 1], (unsigned long long)t, (unsigned long long)B, (unsigned long long)want);
        if (B != want) { printf("REPRODUCED c11:default-clock\n"); return 1; }
        return 0;
    }
    if (a + 1 < argc && !strcmp(argv[a], "tr")) {      /* tr <month index>: one row of the transform sweep */
        long k = atol(argv[a + 1]); work_tr(k, k + 1, r, NULL);
        for (int i = 0; i < r->nviol; i++) printf("REPRODUCED %s: %s\n", r->v[i].key, r->v[i].msg);
        return r->nviol ? 1 : 0;
    }
    if (a < argc && !strcmp(argv[a], "case")) {
        uint64_t t = strtoull(argv[a + 1], NULL, 10);
        check_t(t, r);
        E.clock[0] = t; polyseed_data *s = NULL; polyseed_create(0, &s); printf("clock %llu -> birthday %llu (reference %llu)\n", (unsigned long long)t, (unsigned long long)polyseed_get_birthday(s), (unsigned long long)ref_birthday_time(ref_birthday_index(t)));
        for (int i = 0; i < r->nviol; i++) printf("REPRODUCED %s: %s\n", r->v[i].key, r->v[i].msg);
        return r->nviol ? 1 : 0;
    }
    int every = (a < argc && !strcmp(argv[a], "every"));
    /* boundary list */
    TV = malloc(sizeof(uint64_t) * 40000);
    for (long k = -2; k <= 1030; k++) {
        uint64_t b = R_EPOCH + (uint64_t)(k * (long)R_STEP);
        uint64_t v[] = { b - 2, b - 1, b, b + 1, b + 2, b + R_STEP / 2, b + R_STEP - 1 };
        for (unsigned i = 0; i < sizeof v / sizeof *v; i++) TV[NT++] = v[i];
    }
    uint64_t sp[] = { 0, 1, 2, R_EPOCH - 1, R_EPOCH, R_EPOCH + 1, 0x7FFFFFFFULL - 1, 0x7FFFFFFFULL, 0x80000000ULL, 0x80000001ULL, 0xFFFFFFFFULL - 1, 0xFFFFFFFFULL,
                      0x100000000ULL, 0x100000001ULL, 0x100000000ULL + R_EPOCH, 1ULL << 62, (1ULL << 63) - 1, 1ULL << 63, (1ULL << 63) + 1, UINT64_MAX - 2, UINT64_MAX - 1, UINT64_MAX,
                      R_EPOCH + 2048 * R_STEP, R_EPOCH + 2048 * R_STEP - 1, R_EPOCH + ((1ULL << 32) * R_STEP), R_EPOCH + 1023 * R_STEP + R_STEP - 1, RANGE_END, RANGE_END + 1 };
    for (unsigned i = 0; i < sizeof sp / sizeof *sp; i++) TV[NT++] = sp[i];
    /* powers of two and their neighbours; multiples of the step near 2^32 and 2^64 wrap points */
    for (int b = 0; b < 64; b++) { TV[NT++] = (1ULL << b) - 1; TV[NT++] = 1ULL << b; TV[NT++] = (1ULL << b) + 1; }
    uint64_t ps = 0xB1D + (uint64_t)G_seed; for (int i = 0; i < 2000; i++) { uint64_t v = prng(&ps); unsigned sh = (unsigned)(prng(&ps) & 31); TV[NT++] = v >> sh; }
    out_begin();
    par_run(NT, work_list, NULL, r);
    out_part("boundary clock values (all 1024 month boundaries both sides, special values, powers of two)", r, CLS, "");
    memset(r, 0, sizeof *r); par_run(1024, work_tr, NULL, r);
    out_part("all 1024 month indices through store/load, encode/decode x10, crypt", r, CLS, "");
    memset(r, 0, sizeof *r); flaky_clock(r); out_part("clock whose readings change inside one call", r, CLS, "birthday must correspond to a value actually read");
    memset(r, 0, sizeof *r); default_clock(r); out_part("default clock (time entry NULL) under 7 time-zone settings x 12 readings around each of 1031 month boundaries", r, CLS, "the zone setting of the process is an environment answer; all listed ones enumerated");
    if (every) {
        memset(r, 0, sizeof *r); par_run((long)(1026 * R_STEP), work_every, NULL, r);
        out_part("every second from EPOCH-STEP to EPOCH+1025*STEP", r, CLS, "complete enumeration of the documented range plus one month on each side");
    }
    out_end();
    return 0;
}
