/* Thread scripts and per-thread deterministic dependencies shared by the controlled scheduler
 * (e3_sched.c) and the free-running ThreadSanitizer pass (e3_free.c).  The includer defines CUR
 * (id of the calling thread), MAXT, ARENA, arena[][], apos[], HARNESS, tr[]. */
/* ---- per-thread deterministic dependencies */
/* H10 ("twin threads"): every thread is given the same answers - the k-th block of its random source and its clock are the same in all
 * threads - so that anything the library remembers about "the previous call" collides */
static int TWIN; static int twin_k[MAXT];
static void d_rand(void *p, size_t n) { uint8_t *q = p; if (TWIN) { int k = twin_k[CUR]++; for (size_t i = 0; i < n; i++) q[i] = (uint8_t)(k * 37 + i * 7 + 3); return; } for (size_t i = 0; i < n; i++) q[i] = (uint8_t)(CUR * 101 + i * 7 + 3); }
static void d_kdf(const uint8_t *pw, size_t pl, const uint8_t *s, size_t sl, uint64_t it, uint8_t *k, size_t kl) { (void)it; for (size_t i = 0; i < kl; i++) k[i] = (uint8_t)(pw[pl ? i % pl : 0] ^ s[i % sl] ^ (uint8_t)(i * 3)); }
static void d_mz(void *p, size_t n) { volatile uint8_t *q = p; for (size_t i = 0; i < n; i++) q[i] = 0; }
static size_t d_nfc(const char *s, polyseed_str o) { if (s >= o && s < o + PSTR) { o[0] = 0; return 0; } memset(o, 0xEE, PSTR); return u_nfc(s, o, CAP); }
static size_t d_nfkd(const char *s, polyseed_str o) { if (s >= o && s < o + PSTR) { o[0] = 0; return 0; } memset(o, 0xEE, PSTR); return u_nfkd(s, o, CAP); }
static uint64_t d_time(void) { if (TWIN) return R_EPOCH + (uint64_t)5 * R_STEP + 9; return R_EPOCH + (uint64_t)(5 + CUR * 300) * R_STEP + 9; }
/* H8: one pool shared by all threads that hands the most recently released block to the next request, whoever asks (what a
 * real allocator's free list does); harness state, serialised by the scheduler, part of the state key */
#define POOL_N 12
#define POOL_B 128
static int POOLED; static char pool_mem[POOL_N][POOL_B] __attribute__((aligned(64))); static int pool_free[POOL_N], pool_nfree, pool_fresh;
static int free_calls[MAXT], free_unwiped[MAXT], pool_bad;
static void *pool_alloc(size_t n) { if (n > POOL_B) abort(); int b; if (pool_nfree) b = pool_free[--pool_nfree]; else { if (pool_fresh >= POOL_N) abort(); b = pool_fresh++; } memset(pool_mem[b], 0xDD, POOL_B); return pool_mem[b]; }
static void pool_release(void *p) {
    long b = ((char *)p - pool_mem[0]) / POOL_B;
    if ((char *)p < pool_mem[0] || b >= POOL_N || (char *)p != pool_mem[b]) { pool_bad++; return; }
    for (int i = 0; i < pool_nfree; i++) if (pool_free[i] == (int)b) { pool_bad++; return; }      /* double free */
    free_calls[CUR]++; for (int i = 0; i < 24; i++) if (pool_mem[b][i]) { free_unwiped[CUR]++; break; }
    pool_free[pool_nfree++] = (int)b;
}
static uint64_t harness_key(void) { if (TWIN) { uint64_t h = 7; for (int t = 0; t < MAXT; t++) h = mix64(h, (uint64_t)twin_k[t]); return h; } if (!POOLED) return 0; uint64_t h = (uint64_t)pool_fresh; for (int i = 0; i < pool_nfree; i++) h = mix64(h, (uint64_t)pool_free[i]); for (int t = 0; t < MAXT; t++) h = mix64(h, (uint64_t)(free_calls[t] * 16 + free_unwiped[t])); return mix64(h, (uint64_t)pool_bad); }
static void harness_reset(void) { for (int t = 0; t < MAXT; t++) twin_k[t] = 0; pool_nfree = pool_fresh = pool_bad = 0; for (int t = 0; t < MAXT; t++) free_calls[t] = free_unwiped[t] = 0; }
static const char *harness_note(void) { static char b[160]; b[0] = 0; if (POOLED) snprintf(b, sizeof b, " (shared pool allocator: release callback invoked %d+%d times, %d unwiped, %d blocks still out, %d bad releases)", free_calls[0], free_calls[1], free_unwiped[0] + free_unwiped[1], pool_fresh - pool_nfree, pool_bad); return b; }
static void *d_alloc(size_t n) { if (POOLED) return pool_alloc(n); void *p = arena[CUR] + apos[CUR]; apos[CUR] += (n + 63) & ~(size_t)63; if (apos[CUR] > ARENA) abort(); memset(p, 0xDD, n); return p; }
static void d_free(void *p) { if (POOLED) pool_release(p); }

/* ---- scripts */
static uint64_t tr[MAXT];
static int HARNESS = 1;
static void T(int id, uint64_t v) { tr[id] = mix64(tr[id], v); }
static void Tbuf(int id, const void *p, size_t n) { const uint8_t *b = p; for (size_t i = 0; i < n; i++) T(id, b[i]); }
static uint8_t PRE_ST[MAXT][32];       /* serialised seeds prepared before the threads start */
static int pre_bad;                    /* a harness input did not get the status the harness was built around */
static char PRE_UNS[2][PSTR];          /* H7: well-formed phrases (English / Spanish as emitted) of a seed whose user feature 4 is not enabled */
static char PRE_OK[2][PSTR];           /* H7: phrases of ordinary seeds (Spanish as emitted / English) */
static char PRE_AMB[2][PSTR];          /* H9: two different checksum-valid phrases made only of characters that both Chinese lists contain (ambiguous) */
static uint8_t PRE_UNS_ST[32];         /* H7: the serialised form of the same unsupported seed */
static void prep_inputs(void) {
    for (int t = 0; t < 3; t++) { rseed s; memset(&s, 0, sizeof s); for (int i = 0; i < 19; i++) s.secret[i] = (uint8_t)(t * 53 + i * 11 + 1); s.secret[18] &= 0x3F; s.birthday = 100 + (unsigned)t; s.features = (unsigned)t & 3; ref_storage(&s, PRE_ST[t]); }
    char big[2048]; rseed u; memset(&u, 0, sizeof u); for (int i = 0; i < 19; i++) u.secret[i] = (uint8_t)(i * 29 + 5); u.secret[18] &= 0x3F; u.birthday = 77; u.features = 4;
    ref_phrase(&u, 0, 6, big, 0); snprintf(PRE_UNS[0], PSTR, "%s", big); ref_phrase(&u, 3, 6, big, 0); snprintf(PRE_UNS[1], PSTR, "%s", big); ref_storage(&u, PRE_UNS_ST);
    { unsigned cand[R_NW]; int nc = 0; uint64_t ps = 0xA3B7; for (unsigned i = 0; i < R_NW; i++) if (ref_recognise(9, RL[8].w[i]) >= 0) cand[nc++] = i;
      for (int w = 0; w < 2; w++) { PRE_AMB[w][0] = 0; for (int attempt = 0; attempt < 40000 && nc > 16; attempt++) { unsigned c[16]; for (int i = 1; i < 16; i++) c[i] = cand[prng(&ps) % (unsigned)nc]; if (c[2] & 1) continue; c[3] &= ~1u; c[4] &= ~1u; c[5] &= ~1u; c[0] = 0; c[0] = ref_eval(c);
            int ok = 0; for (int i = 0; i < nc; i++) if (cand[i] == c[0]) ok = 1; for (int i = 3; i <= 5; i++) { int in = 0; for (int q = 0; q < nc; q++) if (cand[q] == c[i]) in = 1; if (!in) ok = 0; } if (!ok) continue;
            ref_phrase_from_idx(c, 8, big, 0); snprintf(PRE_AMB[w], PSTR, "%s", big); break; } } }
    u.features = 1; u.secret[0] ^= 0x55; ref_phrase(&u, 3, 6, big, 0); snprintf(PRE_OK[0], PSTR, "%s", big); u.secret[1] ^= 0x33; ref_phrase(&u, 0, 6, big, 0); snprintf(PRE_OK[1], PSTR, "%s", big);
}
static void script_h(int HARNESS_, int id, int slot) {
    polyseed_data *s = NULL, *s2 = NULL; const polyseed_lang *l = NULL; polyseed_str ph; polyseed_storage st; int r;
    if (HARNESS_ == 1) {                 /* create, encode (Spanish, composing), decode (auto), free */
        r = polyseed_create(0, &s); T(slot, (uint64_t)r);
        size_t n = polyseed_encode(s, polyseed_get_lang(3), (polyseed_coin)id, ph); Tbuf(slot, ph, n + 1);
        r = polyseed_decode(ph, (polyseed_coin)id, &l, &s2); T(slot, (uint64_t)r);
        if (r == 0) { polyseed_store(s2, st); Tbuf(slot, st, 32); T(slot, (uint64_t)lang_index(l)); polyseed_free(s2); }
        /* the same phrase with a doubled space: a malformed phrase takes the error path */
        { char bad[PSTR + 2]; char *sp = strchr(ph, ' '); size_t k = sp ? (size_t)(sp - ph) : 0; memcpy(bad, ph, k + 1); bad[k + 1] = ' '; strcpy(bad + k + 2, ph + k + 1); s2 = NULL; r = polyseed_decode(bad, (polyseed_coin)id, NULL, &s2); T(slot, (uint64_t)r); if (r == 0) polyseed_free(s2);       /* lang_out is optional */
          s2 = NULL; r = polyseed_decode(ph, (polyseed_coin)id, NULL, &s2); T(slot, (uint64_t)r); if (r == 0) polyseed_free(s2); }
        polyseed_free(s);
    } else if (HARNESS_ == 2) {          /* load, crypt, keygen, encode (Japanese), decode_explicit, free */
        r = polyseed_load(PRE_ST[id], &s); T(slot, (uint64_t)r);
        polyseed_crypt(s, id ? "pa\xC3\x9Fw\xC3\xB6rd" : "password"); polyseed_store(s, st); Tbuf(slot, st, 32);
        uint8_t key[32]; polyseed_keygen(s, (polyseed_coin)(7 + id), 32, key); Tbuf(slot, key, 32);
        size_t n = polyseed_encode(s, polyseed_get_lang(1), 5, ph); Tbuf(slot, ph, n + 1);
        r = polyseed_decode_explicit(ph, 5, polyseed_get_lang(1), &s2); T(slot, (uint64_t)r);
        if (r == 0) { T(slot, polyseed_get_birthday(s2)); T(slot, polyseed_get_feature(s2, 7)); T(slot, (uint64_t)polyseed_is_encrypted(s2)); polyseed_free(s2); }
        polyseed_free(s);
    } else if (HARNESS_ == 7) {         /* refused seeds next to accepted ones: a well-formed phrase / image whose user feature is not enabled (status 4), and valid phrases, both decoders */
        if (id == 0) {
            r = polyseed_decode(PRE_UNS[0], 6, &l, &s); T(slot, (uint64_t)r); if (r == 0) polyseed_free(s); if (r != ST_UNSUPPORTED && !CONCURRENT) pre_bad = 1;
            s = NULL; r = polyseed_decode_explicit(PRE_OK[1], 6, polyseed_get_lang(0), &s); T(slot, (uint64_t)r); if (r == 0) { polyseed_store(s, st); Tbuf(slot, st, 32); polyseed_free(s); }
            s = NULL; r = polyseed_load(PRE_UNS_ST, &s); T(slot, (uint64_t)r); if (r == 0) polyseed_free(s); if (r != ST_UNSUPPORTED && !CONCURRENT) pre_bad = 1;
        } else {
            r = polyseed_decode(PRE_OK[0], 6, &l, &s); T(slot, (uint64_t)r); if (r == 0) { polyseed_store(s, st); Tbuf(slot, st, 32); T(slot, (uint64_t)lang_index(l)); polyseed_free(s); }
            s = NULL; r = polyseed_decode_explicit(PRE_UNS[1], 6, polyseed_get_lang(3), &s); T(slot, (uint64_t)r); if (r == 0) polyseed_free(s); if (r != ST_UNSUPPORTED && !CONCURRENT) pre_bad = 1;
            s = NULL; r = polyseed_decode(PRE_OK[1], 6, NULL, &s); T(slot, (uint64_t)r); if (r == 0) { T(slot, polyseed_get_feature(s, 7)); polyseed_free(s); }
        }
    } else if (HARNESS_ == 9) {         /* ambiguous phrases: automatic detection says "multiple languages", then the caller decodes explicitly in one of them */
        r = polyseed_decode(PRE_AMB[id & 1], 0, &l, &s); T(slot, (uint64_t)r); if (r == 0) polyseed_free(s); if (r != ST_MULT_LANG && !CONCURRENT) pre_bad = 1;
        s = NULL; r = polyseed_decode_explicit(PRE_AMB[id & 1], 0, polyseed_get_lang(id & 1 ? 9 : 8), &s); T(slot, (uint64_t)r); if (r == 0) { polyseed_store(s, st); Tbuf(slot, st, 32); polyseed_free(s); } else if (!CONCURRENT) pre_bad = 1;
        s = NULL; r = polyseed_decode(PRE_AMB[id & 1], 0, NULL, &s); T(slot, (uint64_t)r); if (r == 0) polyseed_free(s);
    } else if (HARNESS_ == 10) {        /* twin threads: the same two creates, with the same random blocks and the same clock, in both threads */
        r = polyseed_create(0, &s); T(slot, (uint64_t)r); if (r == 0) { polyseed_store(s, st); Tbuf(slot, st, 32); }
        r = polyseed_create(1, &s2); T(slot, (uint64_t)r); if (r == 0) { polyseed_store(s2, st); Tbuf(slot, st, 32); T(slot, polyseed_get_birthday(s2)); }
        polyseed_free(s); polyseed_free(s2);
    } else if (HARNESS_ == 8) {         /* shared recycling allocator: blocks released by one thread are handed to the other */
        if (id == 0) { r = polyseed_load(PRE_ST[0], &s); T(slot, (uint64_t)r); polyseed_free(s); s = NULL; r = polyseed_create(1, &s); T(slot, (uint64_t)r); polyseed_store(s, st); Tbuf(slot, st, 32); polyseed_free(s); }
        else { r = polyseed_load(PRE_UNS_ST, &s); T(slot, (uint64_t)r); if (r == 0) polyseed_free(s); s = NULL;      /* a refused image: its block goes back to the pool on the error path */
               r = polyseed_create(0, &s); T(slot, (uint64_t)r); polyseed_store(s, st); Tbuf(slot, st, 32); polyseed_free(s); s = NULL; r = polyseed_load(PRE_ST[1], &s); T(slot, (uint64_t)r); if (r == 0) { T(slot, polyseed_get_birthday(s)); polyseed_free(s); } }
        T(slot, (uint64_t)free_calls[id]); T(slot, (uint64_t)free_unwiped[id]);
    } else if (HARNESS_ == 6) {         /* optional allocator entries left NULL (libc malloc/free): create, free, create again, store, free */
        r = polyseed_create(0, &s); T(slot, (uint64_t)r); polyseed_store(s, st); Tbuf(slot, st, 32); polyseed_free(s);
        r = polyseed_create(1, &s); T(slot, (uint64_t)r); polyseed_store(s, st); Tbuf(slot, st, 32);
        r = polyseed_load(st, &s2); T(slot, (uint64_t)r); if (r == 0) { T(slot, polyseed_get_feature(s2, 7)); polyseed_free(s2); }
        polyseed_free(s);
    } else if (HARNESS_ == 5) {         /* three threads, each a full create / encode / decode(auto) / free cycle in its own accent language */
        static const int L5[3] = { 3, 4, 0 };
        r = polyseed_create(0, &s); T(slot, (uint64_t)r);
        size_t n = polyseed_encode(s, polyseed_get_lang(L5[id % 3]), 9, ph); Tbuf(slot, ph, n + 1);
        r = polyseed_decode(ph, 9, &l, &s2); T(slot, (uint64_t)r);
        if (r == 0) { polyseed_store(s2, st); Tbuf(slot, st, 32); polyseed_free(s2); }
        polyseed_free(s);
    } else if (HARNESS_ == 4) {         /* thread 0: decode (auto, Chinese: linear scan over two lists) + crypt with a non-ASCII password; thread 1: create, encode (Korean, composing), get/store, free */
        if (id == 0) { r = polyseed_load(PRE_ST[0], &s); T(slot, (uint64_t)r); size_t n = polyseed_encode(s, polyseed_get_lang(9), 3, ph); Tbuf(slot, ph, n + 1); r = polyseed_decode(ph, 3, &l, &s2); T(slot, (uint64_t)r); if (r == 0) { T(slot, (uint64_t)lang_index(l)); polyseed_free(s2); } polyseed_crypt(s, "\xE5\xAF\x86\xE7\xA0\x81\xC3\xA9"); polyseed_store(s, st); Tbuf(slot, st, 32); polyseed_free(s); }
        else { r = polyseed_create(2, &s); T(slot, (uint64_t)r); size_t n = polyseed_encode(s, polyseed_get_lang(2), 2047, ph); Tbuf(slot, ph, n + 1); T(slot, polyseed_get_birthday(s)); polyseed_store(s, st); Tbuf(slot, st, 32); r = polyseed_decode_explicit(ph, 2047, polyseed_get_lang(2), &s2); T(slot, (uint64_t)r); if (r == 0) polyseed_free(s2); polyseed_free(s); }
    } else {                            /* 3 threads, two operations each, same language and coin so that tables and globals collide */
        if (id == 0) { r = polyseed_create(1, &s); T(slot, (uint64_t)r); size_t n = polyseed_encode(s, polyseed_get_lang(0), 1, ph); Tbuf(slot, ph, n + 1); polyseed_free(s); }
        else if (id == 1) { r = polyseed_load(PRE_ST[1], &s); T(slot, (uint64_t)r); size_t n = polyseed_encode(s, polyseed_get_lang(0), 1, ph); Tbuf(slot, ph, n + 1); r = polyseed_decode_explicit(ph, 1, polyseed_get_lang(0), &s2); T(slot, (uint64_t)r); if (r == 0) polyseed_free(s2); polyseed_free(s); }
        else { r = polyseed_load(PRE_ST[2], &s); T(slot, (uint64_t)r); polyseed_crypt(s, "x"); polyseed_store(s, st); Tbuf(slot, st, 32); uint8_t key[16]; polyseed_keygen(s, 1, 16, key); Tbuf(slot, key, 16); polyseed_free(s); }
    }
}
static void script(int id) { script_h(HARNESS, id, id); }
