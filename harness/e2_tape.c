/* E2 family "tape" (C18): new seeds carry the full CSPRNG output and the injected clock.
 * For each of the 152 bit positions of the 19 requested bytes a tape with that single bit set, all
 * pairs of bits within byte 18, the all-zero and all-one tapes: the stored secret must equal the tape
 * with the top two bits of byte 18 dropped; exactly 19 bytes requested, written inside the new block;
 * bytes of the tape beyond 19 are never used; the birthday comes from the injected clock. */
#include "h.h"
static const char *CLS[] = { "secret_equals_tape", NULL };
static int one(const uint8_t tape[32], uint64_t clock, unsigned f, struct res *r, const char *what) {
    memcpy(E.tape[0], tape, 32); E.clock[0] = clock; env_clear_log();
    polyseed_data *s = NULL; int st = polyseed_create(f, &s); r->cases++; r->calls++;
    char rep[160], h[70]; hex(tape, 32, h); sprintf(rep, "case %s %llu %u", h, (unsigned long long)clock, f);
    if (st != POLYSEED_OK) { res_viol(r, "c18:create", rep, "create failed %d", st); return 1; }
    uint8_t stb[32]; polyseed_store(s, stb); r->calls++;
    uint8_t want[19]; memcpy(want, tape, 19); want[18] &= 0x3F;
    const char *bad = NULL; static char why[200];
    if (memcmp(stb + 10, want, 19)) bad = "stored secret differs from the random source output";
    else if (E.n_rand != 1 || E.last_rand_n != 19) { snprintf(why, sizeof why, "random source called %lu times, last request %zu bytes", E.n_rand, E.last_rand_n); bad = why; }
    else if ((char *)E.last_rand_p < (char *)s || (char *)E.last_rand_p + 19 > (char *)s + E.last_alloc_n) bad = "random bytes were not written into the new seed block";
    else if (E.n_time < 1 || E.n_libc_time) bad = "clock: injected time not consulted, or libc time consulted";
    else if (polyseed_get_birthday(s) != ref_birthday_time(ref_birthday_index(clock))) bad = "birthday does not come from the injected clock";
    else if (((stb[8] | stb[9] << 8) >> 10) != (f & 7)) bad = "stored features differ from the request";
    else if (E.n_libc_malloc || E.n_alloc != 1) bad = "allocation not through the injected allocator exactly once";
    polyseed_free(s); r->calls++;
    if (!bad && (E.n_free != 1 || E.n_libc_free)) bad = "free not through the injected free exactly once";
    r->digest ^= mix64(clock, stb[10] | stb[28] << 8);
    if (bad) { char key[64]; snprintf(key, sizeof key, "c18:tape:%s", what); res_viol(r, key, rep, "%s", bad); return 1; }
    r->validated++; r->cls[0]++; return 0;
}
int main(int argc, char **argv) {
    int a = common_args(argc, argv);
    ref_init(VERIF_ROOT); sec_mark_initial(); env_init(); inject(0); polyseed_enable_features(7);
    struct res *r = calloc(1, sizeof *r);
    if (a < argc && !strcmp(argv[a], "case")) { uint8_t t[32]; unhexn(argv[a + 1], t, 32); one(t, strtoull(argv[a + 2], NULL, 10), atoi(argv[a + 3]), r, "replay"); for (int i = 0; i < r->nviol; i++) printf("REPRODUCED %s: %s\n", r->v[i].key, r->v[i].msg); return r->nviol ? 1 : 0; }
    uint8_t t[32];
    for (int b = 0; b < 152; b++) { memset(t, 0, 32); t[b / 8] |= (uint8_t)(0x80 >> (b % 8)); one(t, R_EPOCH + 5 * R_STEP, 0, r, "single-bit"); }
    for (int b = 0; b < 152; b++) { memset(t, 0xFF, 32); t[b / 8] &= (uint8_t)~(0x80 >> (b % 8)); one(t, R_EPOCH + 900 * R_STEP, 7, r, "single-zero-bit"); }
    for (int i = 0; i < 8; i++) for (int j = i + 1; j < 8; j++) { memset(t, 0, 32); t[18] = (uint8_t)((1 << i) | (1 << j)); one(t, R_EPOCH, 1, r, "byte18-pair"); }
    for (int v = 0; v < 256; v++) { memset(t, 0x33, 32); t[18] = (uint8_t)v; one(t, R_EPOCH + 77 * R_STEP + 5, 2, r, "byte18-value"); }
    /* bytes beyond the 19 requested must not matter */
    for (int b = 19; b < 32; b++) { memset(t, 0, 32); t[b] = 0xFF; one(t, R_EPOCH + 3 * R_STEP, 0, r, "beyond-19"); }
    { static const uint64_t BIG[] = { R_EPOCH + (1ULL << 32), R_EPOCH + (1ULL << 32) + 12345678, (1ULL << 33) + 5, 1ULL << 40, (1ULL << 63) + 77, UINT64_MAX - 1, R_EPOCH + 1024 * R_STEP, R_EPOCH + 1024 * R_STEP - 1 };
      for (unsigned i = 0; i < sizeof BIG / sizeof *BIG; i++) { memset(t, 0x42 + (int)i, 32); t[3] = (uint8_t)i; one(t, BIG[i], i & 7, r, "large-clock"); } }
    memset(t, 0, 32); one(t, 0, 0, r, "zero"); memset(t, 0xFF, 32); one(t, UINT64_MAX, 7, r, "ones");
    /* distinct outputs give distinct secrets: all single-bit tapes produced pairwise different secrets (implied by equality with the tape) */
    res_sample(r, "tape with only bit b set (b=0..151), clock=epoch+5 months -> store bytes 10..28 equal the tape, top two bits of byte 18 dropped");
    out_begin(); out_part("single-bit / single-zero-bit tapes, byte-18 pairs and values, bytes beyond 19, extreme clocks", r, CLS, ""); out_end();
    return 0;
}
