/* E2 family "tape" (C18): new seeds carry the full CSPRNG output and the injected clock.
 * For each of the 152 bit positions of the 19 requested bytes a tape with that single bit set, all
 * pairs of bits within byte 18, the all-zero and all-one tapes: the stored secret must equal the tape
 * with the top two bits of byte 18 dropped; exactly 19 bytes requested, written inside the new block;
 * bytes of the tape beyond 19 are never used; the birthday comes from the injected clock. */
#include "h.h"
static const char *CLS[] = { "secret_equals_tape", NULL };
static int one(const uint8_t tape[32], uint64_t clock, unsigned f, struct res *r, const char *what) {
    memcpy(E.tape[0], tape, 32); E.clock[0] = clock; env_clear_log();
    polyseed_data *s = NULL; int st = polyseed_create(f, &s); r->cases++; r->calls++;
    char rep[160], h[70]; hex(tape, 32, h); sprintf(rep, "case %s %llu %u", h, (unsigned long long)clock, f);
    if (st != POLYSEED_OK) { res_viol(r, "c18:create", rep, "create failed %d", st); return 1; }
    uint8_t stb[32]; polyseed_store(s, stb); r->calls++;
    uint8_t want[19]; memcpy(want, tape, 19); want[18] &= 0x3F;
    const char *bad = NULL; static char why[200];
    if (memcmp(stb + 10, want, 19)) bad = "stored secret differs from the random source output";
    else if (E.n_rand != 1 || E.last_rand_n != 19) { snprintf(why, sizeof why, "random source called %lu times, last request %zu bytes", E.n_rand, E.last_rand_n); bad = why; }
    else if ((char *)E.last_rand_p < (char *)s || (char *)E.last_rand_p + 19 > (char *)s + E.last_alloc_n) bad = "random bytes were not written into the new seed block";
    else if (E.n_time < 1 || E.n_libc_time) bad = "clock: injected time not consulted, or libc time consulted";
    else if (polyseed_get_birthday(s) != ref_birthday_time(ref_birthday_index(clock))) bad = "birthday does not come from the injected clock";
    else if (((stb[8] | stb[9] << 8) >> 10) != (f & 7)) bad = "stored features differ from the request";
    else if (E.n_libc_malloc || E.n_alloc != 1) bad = "allocation not through the injected allocator exactly once";
    polyseed_free(s); r->calls++;
    if (!bad && (E.n_free != 1 || E.n_libc_free)) bad = "free not through the injected free exactly once";
    r->digest ^= mix64(clock, stb[10] | stb[28] << 8);
    if (bad) { char key[64]; snprintf(key, sizeof key, "c18:tape:%s", what); res_viol(r, key, rep, "%s", bad); return 1; }
    r->validated++; r->cls[0]++; return 0;
}
/* a dependency table whose normalisers do nothing (an application may inject NFD, or nothing at all for ASCII-only use): whatever
 * normalisation happens is the injected function's; the library adds none of its own.  Decoders against the reference decoder told
 * the same; encode emits the stored words joined by the language's separator; crypt hands the raw password to the KDF */
static size_t id_norm(const char *s, polyseed_str o) { if (s >= o && s < o + PSTR) { memset(o, 0xEE, PSTR); o[0] = 0; return 0; } memset(o, 0xEE, PSTR); size_t n = strnlen(s, CAP); memcpy(o, s, n); o[n] = 0; return n; }
static size_t id_nfc(const char *s, polyseed_str o) { E.n_nfc++; return id_norm(s, o); }
static size_t id_nfkd(const char *s, polyseed_str o) { E.n_nfkd++; return id_norm(s, o); }
static void foreign_normaliser(struct res *r) {
    polyseed_dependency d = DEPS[0]; d.u8_nfc = id_nfc; d.u8_nfkd = id_nfkd; polyseed_inject(&d); polyseed_enable_features(7); REF_NORMALISER = 1;
    rseed s; memset(&s, 0, sizeof s); for (int i = 0; i < 19; i++) s.secret[i] = (uint8_t)(0x6D + 23 * i); s.secret[18] &= 0x3F; s.birthday = 222; s.features = 1;
    polyseed_data *sd = seed_from_ref(&s); uint8_t st0[32]; ref_storage(&s, st0);
    for (int li = 0; li < R_NLANG && sd; li++) {
        for (int form = 0; form < 3; form++) {
            char ph[2048]; ref_phrase(&s, li, 33, ph, form); if (strlen(ph) >= CAP) continue;
            for (int k = 0; k < 2; k++) {
                polyseed_data *dd = NULL; const polyseed_lang *lo = NULL; env_clear_log();
                int st = k ? polyseed_decode_explicit(ph, 33, polyseed_get_lang(li), &dd) : polyseed_decode(ph, 33, &lo, &dd); r->calls++; r->cases++;
                rseed rs; int want = ref_decode(ph, 33, k ? li : -1, 7, 0, CAP, &rs, NULL);
                uint8_t g[32]; memset(g, 0, 32); if (st == POLYSEED_OK) { polyseed_store(dd, g); polyseed_free(dd); }
                char rep[64], key[64]; snprintf(rep, sizeof rep, "norm %d %d %d", li, form, k); snprintf(key, sizeof key, "c18:own-normalisation:%s", RL[li].code);
                if (st != want || (st == POLYSEED_OK && memcmp(g, st0, 32))) res_viol(r, key, rep, "identity normalisers injected, %s phrase in form %d (%s): %s returned %d, the reference decoder working on the un-normalised string %d - the library normalised (or failed to use) something itself", RL[li].name_en, form, form == 0 ? "as emitted" : form == 1 ? "decomposed, raw separator" : "NFKD", k ? "decode_explicit" : "decode", st, want);
                else { r->validated++; r->cls[0]++; }
            }
        }
        polyseed_str out; size_t n = polyseed_encode(sd, polyseed_get_lang(li), 33, out); r->calls++; r->cases++;
        char want[2048]; size_t wn = ref_phrase(&s, li, 33, want, RL[li].compose ? 1 : 0);
        if (n != wn || memcmp(out, want, wn + 1)) { char rep[64], key[64]; snprintf(rep, sizeof rep, "norm %d 9 0", li); snprintf(key, sizeof key, "c18:own-normalisation-encode:%s", RL[li].code); res_viol(r, key, rep, "identity normalisers injected: the %s phrase is not the stored words joined by the separator (the library composed or decomposed something itself)", RL[li].name_en); }
        else { r->validated++; r->cls[0]++; }
    }
    if (sd) { static const char *PW[3] = { "pass\xC3\xA9\xE3\x80\x80x", "\xEF\xBD\xB6\xC2\xB5", "e\xCC\x81" };
        for (int i = 0; i < 3; i++) { env_clear_log(); polyseed_crypt(sd, PW[i]); r->calls++; r->cases++; size_t l = strlen(PW[i]);
            if (E.n_kdf != 1 || E.kdf.pwlen != l || memcmp(E.kdf.pw, PW[i], l)) res_viol(r, "c18:own-normalisation-password", "norm 0 8 0", "identity normalisers injected: the KDF did not receive the password bytes as given (%zu bytes received, %zu given)", E.kdf.pwlen, l); else { r->validated++; r->cls[0]++; } }
        polyseed_free(sd); }
    REF_NORMALISER = 0; inject(0); polyseed_enable_features(7);
    res_sample(r, "identity u8_nfc / u8_nfkd injected: 10 languages x 3 spellings x both decoders, encode, crypt");
}

static void clock_readings(struct res *r) {
    /* a clock that reads differently every time it is asked: however often create consults it, the birthday is that of a value it returned */
    { static const uint64_t RD[][3] = { { R_EPOCH + 100 * R_STEP + 9, R_EPOCH + 100 * R_STEP + 10, 5 }, { R_EPOCH + 99 * R_STEP + R_STEP - 1, R_EPOCH + 100 * R_STEP, R_EPOCH + 101 * R_STEP + 1 },
                                        { R_EPOCH + 7 * R_STEP, UINT64_MAX, R_EPOCH + 900 * R_STEP }, { 12345, R_EPOCH + 55 * R_STEP + 1, R_EPOCH + 56 * R_STEP + 1 }, { R_EPOCH + 300 * R_STEP + 5, R_EPOCH - 1, 0 } };
      for (unsigned q = 0; q < sizeof RD / sizeof *RD; q++) { memcpy(E.clock_seq, RD[q], sizeof RD[q]); E.clock_seq_n = 3; E.clock_seq_i = 0; env_clear_log(); memset(E.tape[0], 0x21 + (int)q, 32);
          polyseed_data *sd = NULL; int st = polyseed_create(0, &sd); r->cases++; r->calls++; char rep[120]; snprintf(rep, sizeof rep, "clockseq %u", q);
          if (st != POLYSEED_OK) { res_viol(r, "c18:create", rep, "create failed %d", st); continue; }
          uint64_t B = polyseed_get_birthday(sd); polyseed_free(sd); unsigned long reads = E.n_time; int okk = 0; for (unsigned long i = 0; i < reads && i < 3; i++) if (B == ref_birthday_time(ref_birthday_index(RD[q][i]))) okk = 1; if (reads > 3) okk = 1;
          if (!okk || reads < 1) res_viol(r, "c18:tape:clock-readings", rep, "the injected clock returned %llu, %llu, %llu on successive reads (%lu made): the birthday %llu is that of none of the values read", (unsigned long long)RD[q][0], (unsigned long long)RD[q][1], (unsigned long long)RD[q][2], reads, (unsigned long long)B);
          else { r->validated++; r->cls[0]++; } }
      E.clock_seq_n = 0; }
}

/* the decoders hand every non-ASCII phrase to the injected NFKD: phrases typed with ideographic or no-break spaces between the words,
 * or in full-width letters, in every language and through both decoders, must come out as the reference decoder says */
static void decoders_normalise(struct res *r) {
    rseed s; memset(&s, 0, sizeof s); for (int i = 0; i < 19; i++) s.secret[i] = (uint8_t)(0x33 + 17 * i); s.secret[18] &= 0x3F; s.birthday = 640; s.features = 0;
    static const char *SEP[3] = { "\xE3\x80\x80", "\xC2\xA0", "\xE2\x80\x83" };
    for (int li = 0; li < R_NLANG; li++) for (int v = 0; v < 4; v++) {
        char base[2048], ph[4096]; ref_phrase(&s, li, 12, base, 0); size_t o = 0;
        if (v < 3) { const char *sp = RL[li].sep; size_t sl = strlen(sp); for (const char *q = base; *q; ) { if (!strncmp(q, sp, sl)) { memcpy(ph + o, SEP[v], strlen(SEP[v])); o += strlen(SEP[v]); q += sl; } else ph[o++] = *q++; } ph[o] = 0; }
        else { for (const char *q = base; *q; q++) { unsigned char ch = (unsigned char)*q; if (ch >= 'a' && ch <= 'z') { unsigned cp = 0xFF41 + (ch - 'a'); ph[o++] = (char)0xEF; ph[o++] = (char)(0x80 | (cp >> 6 & 63)); ph[o++] = (char)(0x80 | (cp & 63)); } else ph[o++] = *q; } ph[o] = 0; }
        if (strlen(ph) >= CAP) continue;
        for (int k = 0; k < 2; k++) {
            polyseed_data *d = NULL; env_clear_log(); int st = k ? polyseed_decode_explicit(ph, 12, polyseed_get_lang(li), &d) : polyseed_decode(ph, 12, NULL, &d); r->calls++; r->cases++;
            unsigned long called = E.n_nfkd; if (st == POLYSEED_OK) polyseed_free(d);
            int want = ref_decode(ph, 12, k ? li : -1, 7, 0, CAP, NULL, NULL); int na = 0; for (const char *q = ph; *q; q++) if (*q & 0x80) na = 1;
            char rep[64]; snprintf(rep, sizeof rep, "decnorm %d %d %d", li, v, k);
            if (st != want && na && !called) res_viol(r, "c18:normaliser-not-consulted:decode", rep, "%s phrase typed with %s: %s returned %d (reference decoder: %d) and never called the injected NFKD function", RL[li].name_en, v == 0 ? "ideographic spaces" : v == 1 ? "no-break spaces" : v == 2 ? "em spaces" : "full-width letters", k ? "decode_explicit" : "decode", st, want);
            else if (st != want) res_viol(r, "c18:decode-normalised", rep, "%s phrase typed with %s: %s returned %d, reference decoder %d", RL[li].name_en, v == 0 ? "ideographic spaces" : v == 1 ? "no-break spaces" : v == 2 ? "em spaces" : "full-width letters", k ? "decode_explicit" : "decode", st, want);
            else { r->validated++; r->cls[0]++; }
        }
    }
    /* encode: the phrase handed to the caller is what the injected NFC made of the stored words (every language, three coins) */
    { polyseed_data *sd = seed_from_ref(&s);
      for (int li = 0; li < R_NLANG && sd; li++) for (unsigned c = 0; c < 3; c++) { unsigned coin = c == 0 ? 0 : c == 1 ? 1 : 2047; polyseed_str out; env_clear_log(); size_t n = polyseed_encode(sd, polyseed_get_lang(li), (polyseed_coin)coin, out); r->calls++; r->cases++;
          unsigned long called = E.n_nfc; char want[2048]; size_t wn = ref_phrase(&s, li, coin, want, 0); char rep[64]; snprintf(rep, sizeof rep, "decnorm %d 9 %u", li, coin);
          if ((n != wn || memcmp(out, want, wn + 1)) && !called) res_viol(r, "c18:normaliser-not-consulted:encode", rep, "%s phrase (coin %u) is not the composed form of the stored words and the injected NFC function was never called", RL[li].name_en, coin);
          else if (n != wn || memcmp(out, want, wn + 1)) res_viol(r, "c18:encode-normalised", rep, "%s phrase (coin %u) differs from the reference phrase although the injected NFC function was called %lu time(s)", RL[li].name_en, coin, called);
          else { r->validated++; r->cls[0]++; } }
      if (sd) polyseed_free(sd); }
    res_sample(r, "10 languages x {U+3000, U+00A0, U+2003 separators, full-width letters} x both decoders; encode in 10 languages x 3 coins");
}

int main(int argc, char **argv) {
    int a = common_args(argc, argv);
    ref_init(VERIF_ROOT); sec_mark_initial(); env_init(); inject(0); polyseed_enable_features(7);
    struct res *r = calloc(1, sizeof *r);
    if (a < argc && !strcmp(argv[a], "clockseq")) { clock_readings(r); for (int i = 0; i < r->nviol && i < 4; i++) printf("REPRODUCED %s: %s\n", r->v[i].key, r->v[i].msg); return r->nviol ? 1 : 0; }
    if (a < argc && !strcmp(argv[a], "decnorm")) { decoders_normalise(r); for (int i = 0; i < r->nviol && i < 4; i++) printf("REPRODUCED %s: %s\n", r->v[i].key, r->v[i].msg); return r->nviol ? 1 : 0; }
    if (a < argc && !strcmp(argv[a], "norm")) { foreign_normaliser(r); for (int i = 0; i < r->nviol && i < 4; i++) printf("REPRODUCED %s: %s\n", r->v[i].key, r->v[i].msg); return r->nviol ? 1 : 0; }
    if (a < argc && !strcmp(argv[a], "case")) { uint8_t t[32]; unhexn(argv[a + 1], t, 32); one(t, strtoull(argv[a + 2], NULL, 10), atoi(argv[a + 3]), r, "replay"); for (int i = 0; i < r->nviol; i++) printf("REPRODUCED %s: %s\n", r->v[i].key, r->v[i].msg); return r->nviol ? 1 : 0; }
    uint8_t t[32];
    for (int b = 0; b < 152; b++) { memset(t, 0, 32); t[b / 8] |= (uint8_t)(0x80 >> (b % 8)); one(t, R_EPOCH + 5 * R_STEP, 0, r, "single-bit"); }
    for (int b = 0; b < 152; b++) { memset(t, 0xFF, 32); t[b / 8] &= (uint8_t)~(0x80 >> (b % 8)); one(t, R_EPOCH + 900 * R_STEP, 7, r, "single-zero-bit"); }
    for (int i = 0; i < 8; i++) for (int j = i + 1; j < 8; j++) { memset(t, 0, 32); t[18] = (uint8_t)((1 << i) | (1 << j)); one(t, R_EPOCH, 1, r, "byte18-pair"); }
    for (int v = 0; v < 256; v++) { memset(t, 0x33, 32); t[18] = (uint8_t)v; one(t, R_EPOCH + 77 * R_STEP + 5, 2, r, "byte18-value"); }
    /* bytes beyond the 19 requested must not matter */
    for (int b = 19; b < 32; b++) { memset(t, 0, 32); t[b] = 0xFF; one(t, R_EPOCH + 3 * R_STEP, 0, r, "beyond-19"); }
    { static const uint64_t BIG[] = { R_EPOCH + (1ULL << 32), R_EPOCH + (1ULL << 32) + 12345678, (1ULL << 33) + 5, 1ULL << 40, (1ULL << 63) + 77, UINT64_MAX - 1, R_EPOCH + 1024 * R_STEP, R_EPOCH + 1024 * R_STEP - 1 };
      for (unsigned i = 0; i < sizeof BIG / sizeof *BIG; i++) { memset(t, 0x42 + (int)i, 32); t[3] = (uint8_t)i; one(t, BIG[i], i & 7, r, "large-clock"); } }
    memset(t, 0, 32); one(t, 0, 0, r, "zero"); memset(t, 0xFF, 32); one(t, UINT64_MAX, 7, r, "ones");
    /* the birthday comes from the injected clock at every month boundary (the second before, the first second) */
    for (long k = 0; k <= 1030; k++) { uint64_t b = R_EPOCH + (uint64_t)k * R_STEP; memset(t, (int)(k & 0xFF), 32); if (k) one(t, b - 1, (unsigned)k & 7, r, "month-boundary"); one(t, b, (unsigned)k & 7, r, "month-boundary"); }
    clock_readings(r);
    /* distinct outputs give distinct secrets: all single-bit tapes produced pairwise different secrets (implied by equality with the tape) */
    res_sample(r, "tape with only bit b set (b=0..151), clock=epoch+5 months -> store bytes 10..28 equal the tape, top two bits of byte 18 dropped");
    out_begin(); out_part("single-bit / single-zero-bit tapes, byte-18 pairs and values, bytes beyond 19, extreme clocks, month boundaries", r, CLS, "");
    memset(r, 0, sizeof *r); decoders_normalise(r); out_part("phrases typed with compatibility characters: the injected NFKD is consulted by both decoders", r, CLS, "");
    memset(r, 0, sizeof *r); foreign_normaliser(r); out_part("identity normalisers injected: the library adds no normalisation of its own", r, CLS, ""); out_end();
    return 0;
}
