/* Harness core: library-state snapshots, injected environment, observations,
 * forked parallel runner, JSON result output. */
#include "h.h"
#include <locale.h>
#include <stdarg.h>
#include <time.h>
#include <unistd.h>
#include <signal.h>
#include <sys/wait.h>
#include <sys/prctl.h>
#include <sys/mman.h>
#include <errno.h>

#define NOSAN __attribute__((no_sanitize_address, no_sanitize_undefined, noinline))

/* ------------------------------------------------------------------ sections */
extern char __start_ps_data[] __attribute__((weak)), __stop_ps_data[] __attribute__((weak));
extern char __start_ps_bss[] __attribute__((weak)), __stop_ps_bss[] __attribute__((weak));
static size_t dsz(void) { return __start_ps_data ? (size_t)(__stop_ps_data - __start_ps_data) : 0; }
static size_t bsz(void) { return __start_ps_bss ? (size_t)(__stop_ps_bss - __start_ps_bss) : 0; }
size_t sec_size(void) { return dsz() + bsz(); }
NOSAN void sec_save(uint8_t *d) {
    size_t a = dsz(), b = bsz();
    for (size_t i = 0; i < a; i++) d[i] = (uint8_t)__start_ps_data[i];
    for (size_t i = 0; i < b; i++) d[a + i] = (uint8_t)__start_ps_bss[i];
}
NOSAN void sec_load(const uint8_t *s) {
    size_t a = dsz(), b = bsz();
    for (size_t i = 0; i < a; i++) __start_ps_data[i] = (char)s[i];
    for (size_t i = 0; i < b; i++) __start_ps_bss[i] = (char)s[a + i];
}
NOSAN uint64_t sec_hash(uint64_t h) {
    size_t a = dsz(), b = bsz();
    for (size_t i = 0; i < a; i++) h = (h ^ (uint8_t)__start_ps_data[i]) * 0x100000001b3ULL;
    for (size_t i = 0; i < b; i++) h = (h ^ (uint8_t)__start_ps_bss[i]) * 0x100000001b3ULL;
    return mix64(h, a + b);
}
NOSAN size_t sec_diff(const uint8_t *s) {
    size_t a = dsz(), b = bsz(), n = 0;
    for (size_t i = 0; i < a; i++) n += ((uint8_t)__start_ps_data[i] != s[i]);
    for (size_t i = 0; i < b; i++) n += ((uint8_t)__start_ps_bss[i] != s[a + i]);
    return n;
}
int sec_contains(const void *p) {
    const char *c = p;
    return (dsz() && c >= __start_ps_data && c < __stop_ps_data) || (bsz() && c >= __start_ps_bss && c < __stop_ps_bss);
}
uint8_t *sec_copy(void) { uint8_t *p = malloc(sec_size() + 1); sec_save(p); return p; }
static uint8_t *sec_initial;
void sec_mark_initial(void) { if (!sec_initial) sec_initial = sec_copy(); }
void sec_reset_initial(void) { sec_load(sec_initial); }

/* ------------------------------------------------------------------ environment */
struct env E;

static void logc(char c) { if (E.ncalls < (int)sizeof E.calls - 1) { E.calls[E.ncalls++] = c; E.calls[E.ncalls] = 0; } }

/* re-entrancy: the allocator callback may itself call polyseed_inject (an application that installs its final dependency table lazily).
 * E_reinject_from_alloc = t arms that for the next allocator callback; from then on E_tif is the table in force and every call of a
 * table-specific function of the other table is counted in E_stale_calls */
int E_reinject_from_alloc = -1, E_tif = -1; unsigned long E_stale_calls;
#define STALE(t) do { if (E_tif >= 0 && E_tif != (t)) E_stale_calls++; } while (0)
static void do_rand(int t, void *p, size_t n) {
    STALE(t);
    E.n_rand++; E.last_table = t; E.last_rand_n = n; E.last_rand_p = p; logc('R');
    for (size_t i = 0; i < n; i++) ((uint8_t *)p)[i] = E.tape[t][i % 32];
}
static void rand_a(void *p, size_t n) { do_rand(0, p, n); }
static void rand_b(void *p, size_t n) { do_rand(1, p, n); }
static uint64_t time_a(void) { STALE(0); E.n_time++; E.last_table = 0; logc('T'); if (E.clock_seq_n > 0) return E.clock_seq[E.clock_seq_i++ % E.clock_seq_n]; return E.clock[0]; }
static uint64_t time_b(void) { STALE(1); E.n_time++; E.last_table = 1; logc('T'); return E.clock[1]; }

/* ---- the process environment.  A library function that asks for an environment variable gets an answer: every name outside the
 * ones the harness and the C library themselves use "exists" and holds a number.  The unchanged library never asks.  (Defining
 * getenv here interposes it for the harness and the library object only; the C library's internal lookups - TZ, LOCPATH, LC_* -
 * do not go through this symbol.) */
extern char **environ;
unsigned long E_env_asked; char E_env_last[64];
static char *real_getenv(const char *name) { size_t l = strlen(name); for (char **e = environ; e && *e; e++) if (!strncmp(*e, name, l) && (*e)[l] == '=') return *e + l + 1; return NULL; }
static int env_passthrough(const char *n) {
    static const char *P[] = { "TZ", "LOCPATH", "LANG", "LANGUAGE", "HOME", "PATH", "TMPDIR", "PWD", "USER", "SHELL", "TERM", "POSIXLY_CORRECT", NULL };
    static const char *PRE[] = { "LC_", "VERIF_", "ASAN_", "UBSAN_", "TSAN_", "LSAN_", "MSAN_", "MALLOC_", "LD_", "GLIBC_", "GCONV_", "NLSPATH", "OUTPUT_CHARSET", NULL };
    for (int i = 0; P[i]; i++) if (!strcmp(n, P[i])) return 1;
    for (int i = 0; PRE[i]; i++) if (!strncmp(n, PRE[i], strlen(PRE[i]))) return 1;
    return 0;
}
char *getenv(const char *name) {
    if (!name) return NULL;
    if (env_passthrough(name)) return real_getenv(name);
    E_env_asked++; snprintf(E_env_last, sizeof E_env_last, "%s", name);
    return (char *)"1000";
}
char *secure_getenv(const char *name) { return getenv(name); }
int E_kdf_table;   /* which table's KDF is executing */
size_t E_kdf_write_limit;   /* 0 = write the whole key */
void (*E_kdf_hook)(uint8_t *key, size_t keylen);   /* called after the key is written (C04 page protection) */

static void dep_kdf(const uint8_t *pw, size_t pwlen, const uint8_t *salt, size_t saltlen,
                    uint64_t iters, uint8_t *key, size_t keylen) {
    E.n_kdf++; logc('K');
    /* the key buffer belongs to the callee: scribble over it before the inputs are read (a caller passing a key buffer
     * that overlaps the password or the salt is exposed) */
    size_t wl = E_kdf_write_limit && keylen > E_kdf_write_limit ? E_kdf_write_limit : keylen;       /* cases with key lengths beyond any real buffer only look at the arguments */
    for (size_t i = 0; i < wl; i++) key[i] = 0xEE;
    struct kdfcall *k = &E.kdf;
    k->table = E_kdf_table; k->pwptr = pw; k->pwlen = pwlen; k->saltlen = saltlen; k->iters = iters; k->key = key; k->keylen = keylen;
    memset(k->pw, 0, sizeof k->pw); memset(k->salt, 0, sizeof k->salt);
    memcpy(k->pw, pw, pwlen < sizeof k->pw ? pwlen : sizeof k->pw);
    memcpy(k->salt, salt, saltlen < sizeof k->salt ? saltlen : sizeof k->salt);
    if (saltlen == 16) for (size_t i = 0; i < wl; i++) key[i] = E.mask[i % 32];
    else for (size_t i = 0; i < wl; i++) key[i] = (uint8_t)(E.keyfill + i);
    if (E_kdf_hook) E_kdf_hook(key, keylen);
}
static void dep_kdf_b(const uint8_t *pw, size_t pwlen, const uint8_t *salt, size_t saltlen, uint64_t iters, uint8_t *key, size_t keylen) {
    E_kdf_table = 1; dep_kdf(pw, pwlen, salt, saltlen, iters, key, keylen); E_kdf_table = 0;
    if (saltlen == 16 && !E_kdf_hook) for (size_t i = 0; i < keylen; i++) key[i] ^= 0x5A;     /* table B's KDF is a different function */
}
static int mz_table;
static void dep_memzero(void *const p, const size_t n) {
    STALE(mz_table);
    E.n_mz++; E.n_mz_tab[mz_table]++; logc('Z');
    if (E.nmz < 32) { E.mz[E.nmz].p = p; E.mz[E.nmz].n = n; E.nmz++; }
    volatile uint8_t *q = p;
    for (size_t i = 0; i < n; i++) q[i] = 0;
    for (int i = 0; i < E.nlive; i++)
        if ((char *)p <= (char *)E.live[i].p && (char *)p + n >= (char *)E.live[i].p + E.live[i].n) E.live[i].wiped = 1;
}
static void dep_memzero_b(void *const p, const size_t n) { mz_table = 1; dep_memzero(p, n); mz_table = 0; }
/* The output buffer belongs to the callee: like a normaliser that clears its result first, these scribble over the
 * whole polyseed_str before they read their input.  A caller that passes overlapping buffers, or a buffer smaller
 * than a polyseed_str, is thereby exposed (the latter to ASan). */
static size_t hostile_norm(const char *s, char *o, int nfc) {
    if (s >= o && s < o + PSTR) { memset(o, 0xEE, PSTR); o[0] = 0; return 0; }      /* input inside the output buffer: it is gone */
    memset(o, 0xEE, PSTR);
    return nfc ? u_nfc(s, o, CAP) : u_nfkd(s, o, CAP);
}
static size_t dep_nfc(const char *s, polyseed_str o) { E.n_nfc++; logc('C'); return hostile_norm(s, o, 1); }
static size_t dep_nfkd(const char *s, polyseed_str o) { E.n_nfkd++; logc('D'); return hostile_norm(s, o, 0); }

static void *ledger_alloc(size_t n) {
    E.last_alloc_n = n;
    long seq = E.alloc_seq++;
    if (E.fail_at == seq) { E.last_alloc_p = NULL; return NULL; }
    /* blocks sit at addresses that are 8 but not 16 modulo 16 (what a pool allocator with an 8-byte header hands out; every member of
     * the seed structure needs 8 at most), so a caller that rounds the pointer shows */
    char *raw = malloc((n ? n : 1) + 24); void *p = raw + 8;
    memset(p, E.alloc_fill_set ? E.alloc_fill : 0xDD, n);   /* fresh memory is never zero (unless a case asks for a specific fill) */
    if (E.alloc_recycle && E.recycled_n == n && n <= sizeof E.recycled) memcpy(p, E.recycled, n);      /* ... or, on request, what the last released block of this size held when it was released */
    if (E.nlive >= MAXLIVE) { fprintf(stderr, "harness: ledger full\n"); abort(); }
    E.live[E.nlive].p = p; E.live[E.nlive].n = n; E.live[E.nlive].wiped = 0; E.nlive++;
    E.last_alloc_p = p;
    return p;
}
static void ledger_free(void *p) {
    if (!p) { E.err_free_null++; return; }
    for (int i = 0; i < E.nlive; i++) if (E.live[i].p == p) {
        const uint8_t *q = p; int dirty = 0;
        for (size_t j = 0; j < E.live[i].n; j++) dirty |= q[j];
        if (dirty) E.err_free_dirty++;
        if (!E.live[i].wiped) E.err_free_unwiped++;
        if (E.live[i].n <= sizeof E.recycled) { memcpy(E.recycled, p, E.live[i].n); E.recycled_n = E.live[i].n; }
        E.live[i] = E.live[--E.nlive];
        free((char *)p - 8);
        return;
    }
    E.err_foreign_free++;               /* unknown or repeated pointer: do not touch it */
}
/* errno is unspecified after a successful allocation; the harness allocators leave the least convenient value (the library may not read it:
 * the only failure signal of an injected allocator is a NULL result) */
static void reinject_now(void);
static void *dep_alloc(size_t n) { STALE(0); E.n_alloc++; if (E_reinject_from_alloc >= 0) reinject_now(); else E.n_alloc_tab[0]++; logc('A'); void *p = ledger_alloc(n); errno = ENOMEM; return p; }
static void dep_free(void *p) { STALE(0); E.n_free++; E.n_free_tab[0]++; logc('F'); ledger_free(p); }
/* table B has its own entry points (same ledger): which table's functions were called is observable */
static void *dep_alloc_b(size_t n) { STALE(1); E.n_alloc++; if (E_reinject_from_alloc >= 0) reinject_now(); else E.n_alloc_tab[1]++; logc('A'); void *p = ledger_alloc(n); errno = ENOMEM; return p; }
static void dep_free_b(void *p) { STALE(1); E.n_free++; E.n_free_tab[1]++; logc('F'); ledger_free(p); }
/* the library's references to libc malloc/free/time are renamed to these by the build */
void *ps_libc_malloc(size_t n) { E.n_libc_malloc++; logc('m'); void *p = ledger_alloc(n); errno = ENOMEM; return p; }
void ps_libc_free(void *p) { E.n_libc_free++; logc('f'); ledger_free(p); }
time_t E_libc_time_value = (time_t)1700000000;      /* what the C library's clock reads (the library's reference to time() is renamed to this function) */
time_t ps_libc_time(time_t *t) { E.n_libc_time++; logc('t'); if (t) *t = E_libc_time_value; return E_libc_time_value; }

const polyseed_dependency DEPS[2] = {
    { rand_a, dep_kdf, dep_memzero, dep_nfc, dep_nfkd, time_a, dep_alloc, dep_free },
    { rand_b, dep_kdf_b, dep_memzero_b, dep_nfc, dep_nfkd, time_b, dep_alloc_b, dep_free_b },
};
void deps_variant(int t, int nt, int na, int nf, polyseed_dependency *o) {
    *o = DEPS[t];
    if (nt) o->time = NULL;
    if (na) o->alloc = NULL;
    if (nf) o->free = NULL;
}
void inject(int t) { polyseed_dependency d = DEPS[t]; polyseed_inject(&d); memset(&d, 0xEE, sizeof d); }
static void reinject_now(void) { int t = E_reinject_from_alloc; E_reinject_from_alloc = -1; inject(t); E_tif = t; }

void env_clear_log(void) {
    E_tif = -1; E_stale_calls = 0; E_reinject_from_alloc = -1;
    E.n_rand = E.n_time = E.n_alloc = E.n_free = E.n_mz = E.n_kdf = E.n_nfc = E.n_nfkd = 0;
    E.n_libc_malloc = E.n_libc_free = E.n_libc_time = 0; E.n_alloc_tab[0] = E.n_alloc_tab[1] = E.n_free_tab[0] = E.n_free_tab[1] = E.n_mz_tab[0] = E.n_mz_tab[1] = 0;
    E.ncalls = 0; E.calls[0] = 0; E.nmz = 0; E.alloc_seq = 0;
    E.err_foreign_free = E.err_free_dirty = E.err_free_unwiped = E.err_free_null = 0;
    E.last_rand_n = 0; E.last_rand_p = NULL; E.last_alloc_n = 0; E.last_alloc_p = NULL; E.last_table = -1;
    memset(&E.kdf, 0, sizeof E.kdf);
}
void env_init(void) {
    ledger_drop_all();
    memset(&E, 0, sizeof E);
    for (int i = 0; i < 32; i++) { E.tape[0][i] = (uint8_t)(0x11 + 7 * i); E.tape[1][i] = (uint8_t)(0xE3 - 5 * i); }
    E.clock[0] = R_EPOCH + 3 * R_STEP + 5; E.clock[1] = R_EPOCH + 700 * R_STEP + 77;
    for (int i = 0; i < 32; i++) E.mask[i] = (uint8_t)(0xA7 ^ (i * 29));
    E.keyfill = 0x40; E.fail_at = -1;
    env_clear_log();
}
int ledger_live(void) { return E.nlive; }
void ledger_drop_all(void) { for (int i = 0; i < E.nlive; i++) free((char *)E.live[i].p - 8); E.nlive = 0; }

/* ------------------------------------------------------------------ observation */
static const unsigned OBS_HI_MASKS[4] = { 0xFFFFFFFFu, 0x10, 0x18, 0xF9 };
void observe(const polyseed_data *s, unsigned coin, obs *o) {
    memset(o, 0, sizeof *o);
    polyseed_store(s, o->store);
    o->birthday = polyseed_get_birthday(s);
    for (unsigned m = 0; m < 8; m++) o->feat[m] = polyseed_get_feature(s, m);
    for (unsigned m = 0; m < 4; m++) o->feat[8 + m] = polyseed_get_feature(s, OBS_HI_MASKS[m]);
    o->enc = polyseed_is_encrypted(s);
    uint8_t key[32];
    unsigned long before = E.n_kdf;
    polyseed_keygen(s, (polyseed_coin)coin, sizeof key, key);
    if (E.n_kdf == before + 1) {
        memcpy(o->kdf_pw, E.kdf.pw, 32); o->kdf_pwlen = E.kdf.pwlen;
        memcpy(o->kdf_salt, E.kdf.salt, 32); o->kdf_saltlen = E.kdf.saltlen;
        o->kdf_iters = E.kdf.iters; o->kdf_keylen = E.kdf.keylen;
    } else o->kdf_pwlen = (size_t)-1;
    { polyseed_str ph; size_t n = polyseed_encode(s, polyseed_get_lang(0), (polyseed_coin)coin, ph); uint64_t h = n; for (size_t i = 0; i < n && i < PSTR; i++) h = mix64(h, (uint8_t)ph[i]); o->phrase_en = h;
      n = polyseed_encode(s, polyseed_get_lang(2), (polyseed_coin)coin, ph); h = n; for (size_t i = 0; i < n && i < PSTR; i++) h = mix64(h, (uint8_t)ph[i]); o->phrase_ko = h; }
}
int obs_eq(const obs *a, const obs *b) { return !memcmp(a, b, sizeof *a); }
int obs_matches_ref(const obs *o, const rseed *r, unsigned coin, char *why, size_t wl) {
    uint8_t st[32], pw[32], salt[32];
    ref_storage(r, st); ref_keygen_pw(r, pw); ref_keygen_salt(r, coin, salt);
#define BAD(...) do { snprintf(why, wl, __VA_ARGS__); return 0; } while (0)
    if (memcmp(st, o->store, 32)) { char a[65], b[65]; hex(st, 32, a); hex(o->store, 32, b); BAD("store %s expected %s", b, a); }
    if (o->birthday != ref_birthday_time(r->birthday)) BAD("birthday %llu expected %llu", (unsigned long long)o->birthday, (unsigned long long)ref_birthday_time(r->birthday));
    for (unsigned m = 0; m < 8; m++) if (o->feat[m] != (r->features & m & 7)) BAD("get_feature(%u)=%u expected %u", m, o->feat[m], r->features & m & 7);
    for (unsigned m = 0; m < 4; m++) if (o->feat[8 + m] != (r->features & OBS_HI_MASKS[m] & 7)) BAD("get_feature(%#x)=%u expected %u (only the three user bits are ever reported)", OBS_HI_MASKS[m], o->feat[8 + m], r->features & OBS_HI_MASKS[m] & 7);
    if (o->enc != ((r->features >> 4) & 1)) BAD("is_encrypted=%d", o->enc);
    if (o->kdf_pwlen != 32 || o->kdf_saltlen != 32 || o->kdf_iters != 10000 || o->kdf_keylen != 32) BAD("kdf lengths pw=%zu salt=%zu iters=%llu keylen=%zu", o->kdf_pwlen, o->kdf_saltlen, (unsigned long long)o->kdf_iters, o->kdf_keylen);
    if (memcmp(o->kdf_pw, pw, 32)) BAD("kdf password differs");
    if (memcmp(o->kdf_salt, salt, 32)) BAD("kdf salt differs");
    { char ph[2048]; size_t n = ref_phrase(r, 0, coin, ph, 0); uint64_t h = n; for (size_t i = 0; i < n; i++) h = mix64(h, (uint8_t)ph[i]); if (h != o->phrase_en) BAD("English phrase for coin %u differs from the reference", coin);
      n = ref_phrase(r, 2, coin, ph, 0); h = n; for (size_t i = 0; i < n; i++) h = mix64(h, (uint8_t)ph[i]); if (h != o->phrase_ko) BAD("Korean phrase for coin %u differs from the reference", coin); }
#undef BAD
    return 1;
}
polyseed_data *seed_from_ref(const rseed *r) {
    uint8_t st[32]; polyseed_data *s = NULL;
    ref_storage(r, st);
    if (polyseed_load(st, &s) != POLYSEED_OK) return NULL;
    return s;
}
/* the same abstract seed, but produced by polyseed_create (+ polyseed_crypt with an all-zero
 * mask for the encrypted flag), so the library computes the check value itself */
uint64_t E_create_clock_shift;
unsigned E_create_high_bits;       /* argument bits above the three feature bits, set by a case that wants them (they must not reach the seed) */
polyseed_data *seed_via_create(const rseed *r) {
    if (r->features & 8) return NULL;
    uint8_t keep_tape[32], keep_mask[32]; uint64_t keep_clock = E.clock[0];
    memcpy(keep_tape, E.tape[0], 32); memcpy(keep_mask, E.mask, 32);
    memset(E.tape[0], 0, 32); memcpy(E.tape[0], r->secret, 19);
    E.clock[0] = ref_birthday_time(r->birthday) + 1 + E_create_clock_shift;
    polyseed_data *s = NULL;
    if (polyseed_create((r->features & 7) | E_create_high_bits, &s) != POLYSEED_OK) s = NULL;     /* only the three low bits of the argument are the features */
    if (s && (r->features & 16)) { memset(E.mask, 0, 32); polyseed_crypt(s, ""); }
    memcpy(E.tape[0], keep_tape, 32); memcpy(E.mask, keep_mask, 32); E.clock[0] = keep_clock;
    return s;
}
int lang_index(const polyseed_lang *l) {
    int n = polyseed_get_num_langs();
    for (int i = 0; i < n; i++) if (polyseed_get_lang(i) == l) return i;
    return -1;
}
void hex(const void *p, size_t n, char *out) {
    static const char d[] = "0123456789abcdef";
    const uint8_t *b = p;
    for (size_t i = 0; i < n; i++) { out[2 * i] = d[b[i] >> 4]; out[2 * i + 1] = d[b[i] & 15]; }
    out[2 * n] = 0;
}
int unhexn(const char *h, uint8_t *out, size_t max) {
    size_t n = 0;
    while (h[0] && h[1] && n < max) { unsigned v; if (sscanf(h, "%2x", &v) != 1) return -1; out[n++] = (uint8_t)v; h += 2; }
    return (int)n;
}
void rseed_from_storage(const uint8_t st[32], rseed *r) {
    unsigned v = st[8] | (st[9] << 8);
    r->birthday = v & 1023; r->features = (v >> 10) & 31; memcpy(r->secret, st + 10, 19);
}
void rseed_str(const rseed *r, char *out) { char h[40]; hex(r->secret, 19, h); sprintf(out, "%s:%u:%u", h, r->birthday, r->features); }
int parse_rseed(const char *s, unsigned b, unsigned f, rseed *r) {
    memset(r, 0, sizeof *r);
    if (unhexn(s, r->secret, 19) != 19) return -1;
    r->secret[18] &= 0x3F; r->birthday = b & 1023; r->features = f & 31; return 0;
}

/* ------------------------------------------------------------------ results */
void res_add(struct res *t, const struct res *r) {
    t->cases += r->cases; t->calls += r->calls; t->validated += r->validated; t->digest ^= r->digest;
    for (int i = 0; i < NCLS; i++) t->cls[i] += r->cls[i];
    t->nviol_total += r->nviol_total; t->timed_out |= r->timed_out;
    for (int i = 0; i < r->nviol && t->nviol < MAXV; i++) t->v[t->nviol++] = r->v[i];
    for (int i = 0; i < r->nsample && t->nsample < 6; i++) memcpy(t->sample[t->nsample++], r->sample[i], sizeof r->sample[i]);
}
void res_viol(struct res *r, const char *key, const char *replay, const char *fmt, ...) {
    r->nviol_total++;
    for (int i = 0; i < r->nviol; i++) if (!strcmp(r->v[i].key, key)) return;   /* one per key */
    if (r->nviol >= MAXV) return;
    struct viol *v = &r->v[r->nviol++];
    snprintf(v->key, sizeof v->key, "%s", key);
    snprintf(v->replay, sizeof v->replay, "%s", replay ? replay : "");
    va_list ap; va_start(ap, fmt); vsnprintf(v->msg, sizeof v->msg, fmt, ap); va_end(ap);
}
void res_sample(struct res *r, const char *fmt, ...) {
    if (r->nsample >= 6) return;
    va_list ap; va_start(ap, fmt); vsnprintf(r->sample[r->nsample++], sizeof r->sample[0], fmt, ap); va_end(ap);
}

int G_workers = 16; double G_deadline = 0; long G_seed = 0; int G_thorough = 0;
double now_s(void) { struct timespec t; clock_gettime(CLOCK_MONOTONIC, &t); return t.tv_sec + t.tv_nsec * 1e-9; }
int past_deadline(void) { return G_deadline > 0 && now_s() > G_deadline; }
uint64_t prng(uint64_t *s) { uint64_t z = (*s += 0x9e3779b97f4a7c15ULL); z = (z ^ (z >> 30)) * 0xbf58476d1ce4e5b9ULL; z = (z ^ (z >> 27)) * 0x94d049bb133111ebULL; return z ^ (z >> 31); }

/* per-worker note of the case in progress, visible to the parent if the worker dies */
char *G_cur;                                   /* 2000-byte slot */
static char *cur_slots;

void par_run(long n, workfn f, void *arg, struct res *tot) {
    int W = G_workers; if (W < 1) W = 1; if (n < W) W = (int)(n > 0 ? n : 1);
    long nch = (long)W * 16; if (nch > n) nch = n; if (nch < 1) nch = 1;
    if (!cur_slots) cur_slots = mmap(NULL, 64 * 2000, PROT_READ | PROT_WRITE, MAP_SHARED | MAP_ANONYMOUS, -1, 0);
    int fds[64][2]; pid_t pid[64];
    fflush(stdout); fflush(stderr);
    for (int w = 0; w < W; w++) {
        if (pipe(fds[w])) { perror("pipe"); exit(3); }
        cur_slots[w * 2000] = 0;
        pid[w] = fork();
        if (pid[w] < 0) { perror("fork"); exit(3); }
        if (pid[w] == 0) {
            prctl(PR_SET_PDEATHSIG, SIGKILL);        /* a worker never outlives a parent that was killed for running too long */
            close(fds[w][0]);
            G_cur = cur_slots + w * 2000;
            struct res *r = calloc(1, sizeof *r);
            for (long c = w; c < nch; c += W) {
                long lo = n * c / nch, hi = n * (c + 1) / nch;
                if (past_deadline()) { r->timed_out = 1; break; }
                f(lo, hi, r, arg);
            }
            const char *p = (const char *)r; size_t left = sizeof *r;
            while (left) { ssize_t k = write(fds[w][1], p, left); if (k <= 0) { if (errno == EINTR) continue; _exit(4); } p += k; left -= (size_t)k; }
            _exit(0);
        }
        close(fds[w][1]);
    }
    struct res *r = malloc(sizeof *r);
    for (int w = 0; w < W; w++) {
        char *p = (char *)r; size_t got = 0;
        while (got < sizeof *r) { ssize_t k = read(fds[w][0], p + got, sizeof *r - got); if (k < 0 && errno == EINTR) continue; if (k <= 0) break; got += (size_t)k; }
        close(fds[w][0]);
        int st = 0; waitpid(pid[w], &st, 0);
        if (got == sizeof *r && WIFEXITED(st) && WEXITSTATUS(st) == 0) res_add(tot, r);
        else {
            char key[160];
            snprintf(key, sizeof key, "crash:%s", WIFSIGNALED(st) ? strsignal(WTERMSIG(st)) : "exit");
            res_viol(tot, key, cur_slots + w * 2000, "worker %d died (%s %d) while running: %.300s", w,
                     WIFSIGNALED(st) ? "signal" : "exit status", WIFSIGNALED(st) ? WTERMSIG(st) : WEXITSTATUS(st), cur_slots + w * 2000);
        }
    }
    free(r);
}

/* ------------------------------------------------------------------ JSON */
static int out_first;
static void jstr(const char *s) {
    putchar('"');
    for (; *s; s++) {
        unsigned char c = (unsigned char)*s;
        if (c == '"' || c == '\\') { putchar('\\'); putchar(c); }
        else if (c < 0x20) printf("\\u%04x", c);
        else if (c < 0x80) putchar(c);
        else {  /* emit only well-formed UTF-8 sequences */
            int n = (c >= 0xC2 && c < 0xE0) ? 2 : (c >= 0xE0 && c < 0xF0) ? 3 : (c >= 0xF0 && c < 0xF5) ? 4 : 0, ok = n > 0;
            for (int i = 1; i < n && ok; i++) if (((unsigned char)s[i] & 0xC0) != 0x80) ok = 0;
            if (ok) { for (int i = 0; i < n; i++) putchar(s[i]); s += n - 1; } else putchar('?');
        }
    }
    putchar('"');
}
void out_begin(void) { printf("{\"parts\":["); out_first = 1; }
void out_part(const char *name, const struct res *r, const char *const *cn, const char *note) {
    if (!out_first) putchar(','); out_first = 0;
    printf("\n{\"name\":"); jstr(name);
    printf(",\"cases\":%llu,\"calls\":%llu,\"validated\":%llu,\"digest\":\"%016llx\",\"timed_out\":%s,\"violations_total\":%llu",
           (unsigned long long)r->cases, (unsigned long long)r->calls, (unsigned long long)r->validated,
           (unsigned long long)r->digest, r->timed_out ? "true" : "false", (unsigned long long)r->nviol_total);
    printf(",\"classes\":{"); int first = 1;
    for (int i = 0; i < NCLS && cn && cn[i]; i++) { if (!first) putchar(','); first = 0; jstr(cn[i]); printf(":%llu", (unsigned long long)r->cls[i]); }
    printf("},\"note\":"); jstr(note ? note : "");
    printf(",\"samples\":[");
    for (int i = 0; i < r->nsample; i++) { if (i) putchar(','); jstr(r->sample[i]); }
    printf("],\"violations\":[");
    for (int i = 0; i < r->nviol; i++) {
        if (i) putchar(',');
        printf("{\"key\":"); jstr(r->v[i].key); printf(",\"replay\":"); jstr(r->v[i].replay); printf(",\"msg\":"); jstr(r->v[i].msg); putchar('}');
    }
    printf("]}");
}
static char kvbuf[4096]; static size_t kvlen;
void out_kv_int(const char *k, long long v) { kvlen += (size_t)snprintf(kvbuf + kvlen, sizeof kvbuf - kvlen, ",\"%s\":%lld", k, v); }
void out_end(void) { printf("\n]%s}\n", kvbuf); fflush(stdout); }

int common_args(int argc, char **argv) {
    int i = 1;
    for (; i < argc; i++) {
        if (!strcmp(argv[i], "--workers") && i + 1 < argc) G_workers = atoi(argv[++i]);
        else if (!strcmp(argv[i], "--deadline") && i + 1 < argc) G_deadline = now_s() + atof(argv[++i]);
        else if (!strcmp(argv[i], "--seed") && i + 1 < argc) G_seed = atol(argv[++i]);
        else if (!strcmp(argv[i], "--tier") && i + 1 < argc) G_thorough = !strcmp(argv[++i], "thorough");
        else if (!strcmp(argv[i], "--locale") && i + 1 < argc) {      /* the process locale is an environment setting a C library function may consult */
            const char *got = setlocale(LC_ALL, argv[++i]);
            if (!got) fprintf(stderr, "harness: locale %s is not available (LOCPATH=%s); running in the C locale\n", argv[i], getenv("LOCPATH") ? getenv("LOCPATH") : "");
            out_kv_int("locale_requested", 1); out_kv_int("locale_in_force", got != NULL);
        }
        else break;
    }
    if (G_workers > 64) G_workers = 64;
    return i;
}
