/* E2 family "gf" (C02): the checksum detects every single-word error and every transposition.
 * (a) one-word polynomials x every check value through polyseed_load       (15 x 2048 x 2048)
 * (b) additivity: the library's own check value (create path) for all pairs of basis bits,
 *     thorough: all pairs of one-word polynomials at 16 position pairs
 * (c) derived from the library's table T[p][v]: T[p][v] != 0 (v != 0), T[p][d] != T[q][d] (p != q, d != 0)
 * (d) phrases: K bases x 16 positions x 2047 replacements, x 120 swaps, both decoders
 * (e) K serialised seeds x 2048 check values through load */
#include "h.h"

static const char *CLS_A[] = { "checksum_error", "accepted_ok", "accepted_but_unsupported", NULL };
static const char *CLS_D[] = { "explicit_checksum_auto_checksum", "explicit_checksum_auto_multlang", "original_ok", NULL };

static int STRIDE = 1;

/* ---- (a) */
static void work_a(long lo, long hi, struct res *r, void *arg) {
    (void)arg;
    extern char *G_cur;
    for (long x = lo; x < hi; x++) {          /* x = (p-1)*2048 + v */
        if (past_deadline()) { r->timed_out = 1; return; }
        int p = 1 + (int)(x / 2048); unsigned v = (unsigned)(x % 2048);
        unsigned c[16] = {0}; c[p] = v;
        rseed s; ref_from_coeffs(c, &s);
        uint8_t buf[32]; ref_storage(&s, buf);
        unsigned expect = ref_mulx_pow(v, p);
        int supported = ref_supported(s.features, 7);
        if (G_cur) sprintf(G_cur, "case a %d %u 0", p, v);
        unsigned accepted = 0, n_acc = 0;
        for (unsigned k = (unsigned)(x % STRIDE); k < 2048; k += STRIDE) {
            buf[30] = k & 0xff; buf[31] = 0x70 | (k >> 8);
            polyseed_data *d = NULL;
            int st = polyseed_load(buf, &d);
            r->cases++; r->calls++;
            int want = (k == expect) ? (supported ? ST_OK : ST_UNSUPPORTED) : ST_CHECKSUM;
            if (st == POLYSEED_OK) polyseed_free(d);
            if (st != want) {
                char key[100], rep[100]; snprintf(key, sizeof key, "c02:mul:p%d", p); sprintf(rep, "case a %d %u %u", p, v, k);
                res_viol(r, key, rep, "one-word polynomial %u*x^%d with check value %u: load returned %d, expected %d (reference product %u)", v, p, k, st, want, expect);
            } else r->validated++;
            if (st != POLYSEED_ERR_CHECKSUM) { accepted = k; n_acc++; }
            r->cls[st == POLYSEED_ERR_CHECKSUM ? 0 : st == POLYSEED_OK ? 1 : 2]++;
        }
        r->digest ^= mix64(x, accepted * 4096 + n_acc);
        if (STRIDE == 1 && n_acc != 1) { char key[100], rep[100]; snprintf(key, sizeof key, "c02:unique:p%d", p); sprintf(rep, "case a %d %u 0", p, v); res_viol(r, key, rep, "%u check values validate %u*x^%d (exactly one must)", n_acc, v, p); }
        if (ledger_live()) { res_viol(r, "c02:leak", "", "ledger not empty"); ledger_drop_all(); }
    }
    if (r->nsample < 1) res_sample(r, "load(POLYSEED||..one word v at position p..||check k) for p=1..15, v=0..2047, k=0..2047; e.g. p=7 v=1024 accepted only for k=%u", ref_mulx_pow(1024, 7));
}

/* library's check value of an arbitrary supported seed, computed by the library itself (create path) */
static int lib_check_value(const rseed *s, struct res *r) {
    polyseed_data *d = seed_via_create(s); r->calls += (s->features & 16) ? 2 : 1;
    if (!d) return -1;
    uint8_t st[32]; polyseed_store(d, st); polyseed_free(d); r->calls += 2;
    return (st[30] | (st[31] << 8)) & 0x7FF;
}
static int bit_to_coeff(int b, int *p, unsigned *v) { /* basis bit b (0..164) -> (position, value) */
    *p = 1 + b / 11; *v = 1u << (b % 11);
    return 1;
}
static void work_b(long lo, long hi, struct res *r, void *arg) {
    (void)arg;
    for (long x = lo; x < hi; x++) {
        if (past_deadline()) { r->timed_out = 1; return; }
        int i = (int)(x / 165), j = (int)(x % 165);
        if (j < i) continue;
        int p, q; unsigned v, w; bit_to_coeff(i, &p, &v); bit_to_coeff(j, &q, &w);
        unsigned c[16] = {0}; c[p] ^= v; if (j != i) c[q] ^= w;
        rseed s; ref_from_coeffs(c, &s);
        if (s.features & 8) continue;             /* reserved bit: no such seed can be created */
        r->cases++;
        int got = lib_check_value(&s, r);
        unsigned want = ref_mulx_pow(c[p], p) ^ (q != p ? ref_mulx_pow(c[q], q) : 0);
        r->digest ^= mix64(x, got);
        if (got != (int)want) {
            char key[100], rep[100]; snprintf(key, sizeof key, "c02:additive:p%d:q%d", p, q); sprintf(rep, "case b %d %u %d %u", p, c[p], q, j != i ? c[q] : 0);
            res_viol(r, key, rep, "check value computed by the library for %u*x^%d + %u*x^%d is %d, reference %u", c[p], p, j != i ? c[q] : 0, q, got, want);
        } else { r->validated++; r->cls[1]++; }
    }
    if (r->nsample < 1) res_sample(r, "created seed with basis bits i<=j set; stored check value vs reference sum of products");
}
static const int PP[16][2] = { {1,2},{1,15},{2,3},{3,4},{4,5},{5,6},{6,7},{7,8},{8,9},{9,10},{10,11},{11,12},{12,13},{13,14},{14,15},{6,15} };
static void work_b2(long lo, long hi, struct res *r, void *arg) {
    (void)arg;
    for (long x = lo; x < hi; x++) {
        if ((x & 1023) == 0 && past_deadline()) { r->timed_out = 1; return; }
        unsigned w = (unsigned)(x % 2048), v = (unsigned)((x / 2048) % 2048); int pp = (int)(x / (2048L * 2048));
        int p = PP[pp][0], q = PP[pp][1];
        unsigned c[16] = {0}; c[p] = v; c[q] = w;
        rseed s; ref_from_coeffs(c, &s);
        if (s.features & 8) continue;
        r->cases++;
        int got = lib_check_value(&s, r);
        unsigned want = ref_mulx_pow(v, p) ^ ref_mulx_pow(w, q);
        r->digest ^= mix64(x, got);
        if (got != (int)want) {
            char key[100], rep[100]; snprintf(key, sizeof key, "c02:additive2:p%d:q%d", p, q); sprintf(rep, "case b %d %u %d %u", p, v, q, w);
            res_viol(r, key, rep, "check value for %u*x^%d + %u*x^%d is %d, reference %u", v, p, w, q, got, want);
        } else { r->validated++; r->cls[1]++; }
    }
}

/* ---- (c) derived distance argument on the library's own table */
static void part_c(struct res *r) {
    static int T[16][2048];
    for (unsigned v = 0; v < 2048; v++) T[0][v] = (int)v;   /* the check word itself enters with coefficient 1 */
    for (int p = 1; p < 16; p++) for (unsigned v = 0; v < 2048; v++) {
        unsigned c[16] = {0}; c[p] = v; rseed s; ref_from_coeffs(c, &s);
        if (s.features & 8) { T[p][v] = -1; continue; }    /* position 2, odd values: no such seed */
        T[p][v] = lib_check_value(&s, r);
        r->cases++;
        if (T[p][v] != (int)ref_mulx_pow(v, p)) { char key[64], rep[64]; sprintf(key, "c02:table:p%d", p); sprintf(rep, "case b %d %u 0 0", p, v); res_viol(r, key, rep, "T[%d][%u]=%d reference %u", p, v, T[p][v], ref_mulx_pow(v, p)); }
        else r->validated++;
    }
    /* position 2 odd values: complete the table by additivity, T[2][v] = T[2][v^1] ^ T[2][1] is not observable; use
     * the load path instead: the unique check value that is not CHECKSUM */
    for (unsigned v = 1; v < 2048; v += 2) {
        unsigned c[16] = {0}; c[2] = v; rseed s; ref_from_coeffs(c, &s); uint8_t buf[32]; ref_storage(&s, buf);
        int found = -1;
        for (unsigned k = 0; k < 2048; k++) { buf[30] = k & 0xff; buf[31] = 0x70 | (k >> 8); polyseed_data *d = NULL; int st = polyseed_load(buf, &d); r->calls++; if (st == POLYSEED_OK) polyseed_free(d); if (st != POLYSEED_ERR_CHECKSUM) { found = (int)k; break; } }
        T[2][v] = found; r->cases++;
        if (found >= 0) r->validated++;
    }
    long single = 0, trans = 0;
    for (int p = 0; p < 16; p++) for (unsigned v = 1; v < 2048; v++) {
        single++;
        if (T[p][v] == 0 || T[p][v] < 0) { char key[64]; sprintf(key, "c02:single:p%d", p); res_viol(r, key, "", "a change of word %d by difference %u goes undetected (contribution %d)", p + 1, v, T[p][v]); }
    }
    for (int p = 0; p < 16; p++) for (int q = p + 1; q < 16; q++) for (unsigned d = 1; d < 2048; d++) {
        trans++;
        if (T[p][d] == T[q][d]) { char key[64]; sprintf(key, "c02:swap:p%d:q%d", p, q); res_viol(r, key, "", "swapping words %d and %d that differ by %u goes undetected", p + 1, q + 1, d); }
    }
    r->cls[0] = (uint64_t)single; r->cls[1] = (uint64_t)trans;
    res_sample(r, "T[p][v] = library check value of v*x^p (create path; load path for reserved values); %ld single-error and %ld transposition conditions evaluated", single, trans);
}
static const char *CLS_C[] = { "single_error_conditions", "transposition_conditions", NULL };

/* ---- (d) phrases */
#define MAXK 64
static struct { unsigned c[16]; int li; unsigned coin; } BASE[MAXK]; static int NBASE;
static void make_bases(void) {
    uint64_t ps = 0xBA5E + (uint64_t)G_seed;
    int K = G_thorough ? 40 : 10;
    for (int k = 0; k < K; k++) {
        rseed s; memset(&s, 0, sizeof s);
        if (k >= 1) for (int i = 0; i < 19; i++) s.secret[i] = (uint8_t)(k == 1 ? 0xFF : prng(&ps));
        s.secret[18] &= 0x3F; s.birthday = (k == 1) ? 1023 : (unsigned)(prng(&ps) & 1023); s.features = (k & 1) ? 5 : 0;
        ref_coeffs(&s, BASE[k].c);
        BASE[k].li = k % R_NLANG; BASE[k].coin = (k < 2) ? 0 : (unsigned)(prng(&ps) & 2047);
        BASE[k].c[1] ^= BASE[k].coin;          /* c[] now holds the word indices of the phrase */
    }
    /* Spanish and French phrases made of unaccented words only: a substituted accented word is then the only non-ASCII text of the phrase */
    for (int li = 3; li <= 4 && K < MAXK; li++, K++) {
        unsigned pick[16]; int n = 1; for (unsigned i = 100; i < R_NW && n < 16; i += 37) if (!strcmp(RL[li].w[i], RL[li].wkey[i])) pick[n++] = i;
        pick[2] &= ~1u; pick[0] = 0; if (strcmp(RL[li].w[pick[2]], RL[li].wkey[pick[2]])) pick[2] = pick[3] & ~1u;
        unsigned coin = 0x155; pick[1] ^= coin; pick[0] = 0; pick[0] = ref_eval(pick); pick[1] ^= coin;
        memcpy(BASE[K].c, pick, sizeof pick); BASE[K].li = li; BASE[K].coin = coin;
    }
    NBASE = K;
}
static void check_altered_form(const unsigned idx[16], int li, unsigned coin, struct res *r, const char *what, long x, int form);
static void check_altered(const unsigned idx[16], int li, unsigned coin, struct res *r, const char *what, long x) {
    /* both spellings: as emitted (composed) and NFKD, when they differ */
    char a[2048], b[2048]; ref_phrase_from_idx(idx, li, a, 0); ref_phrase_from_idx(idx, li, b, 2);
    check_altered_form(idx, li, coin, r, what, x, (x & 1) ? 0 : 2);
    if (strcmp(a, b)) check_altered_form(idx, li, coin, r, what, x, (x & 1) ? 2 : 0);
}
static void check_altered_form(const unsigned idx[16], int li, unsigned coin, struct res *r, const char *what, long x, int form) {
    char ph[2048], rep[2300];
    ref_phrase_from_idx(idx, li, ph, form);
    snprintf(rep, sizeof rep, "case d %d %u %s", li, coin, ph);
    extern char *G_cur; if (G_cur) { strncpy(G_cur, rep, 1999); G_cur[1999] = 0; }
    polyseed_data *d = NULL; const polyseed_lang *lo = NULL;
    int es = polyseed_decode_explicit(ph, coin, polyseed_get_lang(li), &d); if (es == POLYSEED_OK) polyseed_free(d);
    d = NULL;
    int as = polyseed_decode(ph, coin, (x & 2) ? NULL : &lo, &d); if (as == POLYSEED_OK) polyseed_free(d);
    r->cases++; r->calls += 2;
    r->digest ^= mix64(x, es * 16 + as);
    char key[100];
    if (es != POLYSEED_ERR_CHECKSUM) { snprintf(key, sizeof key, "c02:%s:explicit:%s", what, RL[li].code); res_viol(r, key, rep, "decode_explicit of an altered phrase returned %d instead of the checksum error", es); return; }
    if (as == POLYSEED_ERR_CHECKSUM) r->cls[0]++;
    else if (as == POLYSEED_ERR_MULT_LANG) {
        unsigned which; int cnt = ref_count_langs(ph, CAP, &which);
        if (cnt < 2) { snprintf(key, sizeof key, "c02:%s:auto-mult:%s", what, RL[li].code); res_viol(r, key, rep, "auto decode says multiple languages, reference finds %d", cnt); return; }
        r->cls[1]++;
    } else { snprintf(key, sizeof key, "c02:%s:auto:%s", what, RL[li].code); res_viol(r, key, rep, "auto decode of an altered phrase returned %d", as); return; }
    /* and the reference decoder must agree on both */
    int re = ref_decode(ph, coin, li, 7, 0, CAP, NULL, NULL), ra = ref_decode(ph, coin, -1, 7, 0, CAP, NULL, NULL);
    if (re != es || ra != as) { snprintf(key, sizeof key, "c02:%s:model:%s", what, RL[li].code); res_viol(r, key, rep, "reference decoder says explicit=%d auto=%d, library %d/%d", re, ra, es, as); return; }
    r->validated++;
}
static void work_d(long lo, long hi, struct res *r, void *arg) {
    (void)arg;
    for (long x = lo; x < hi; x++) {
        if ((x & 63) == 0 && past_deadline()) { r->timed_out = 1; return; }
        unsigned w = (unsigned)(x % 2048); int p = (int)((x / 2048) % 16); int k = (int)(x / (2048 * 16));
        unsigned idx[16]; memcpy(idx, BASE[k].c, sizeof idx);
        if (idx[p] == w) {      /* the unaltered phrase: must decode */
            char ph[2048]; ref_phrase_from_idx(idx, BASE[k].li, ph, 0);
            polyseed_data *d = NULL; int es = polyseed_decode_explicit(ph, BASE[k].coin, polyseed_get_lang(BASE[k].li), &d); r->calls++;
            if (es != POLYSEED_OK) { char rep[2300]; snprintf(rep, sizeof rep, "case d %d %u %s", BASE[k].li, BASE[k].coin, ph); res_viol(r, "c02:base", rep, "base phrase does not decode (%d)", es); }
            else { polyseed_free(d); r->cls[2]++; }
            continue;
        }
        idx[p] = w;
        check_altered(idx, BASE[k].li, BASE[k].coin, r, "subst", x);
    }
    if (r->nsample < 1) res_sample(r, "base phrase k, word at position p replaced by list word w (all 16 x 2047), decode_explicit and decode");
}
static void work_swap(long lo, long hi, struct res *r, void *arg) {
    (void)arg;
    for (long x = lo; x < hi; x++) {
        int q = (int)(x % 16), p = (int)((x / 16) % 16), k = (int)(x / 256);
        if (q <= p) continue;
        unsigned idx[16]; memcpy(idx, BASE[k].c, sizeof idx);
        if (idx[p] == idx[q]) continue;
        unsigned t = idx[p]; idx[p] = idx[q]; idx[q] = t;
        check_altered(idx, BASE[k].li, BASE[k].coin, r, "swap", x);
    }
    if (r->nsample < 1) res_sample(r, "base phrase k with words p<q exchanged (all 120 pairs of unequal words)");
}
/* ---- (e) */
static void work_e(long lo, long hi, struct res *r, void *arg) {
    (void)arg;
    for (long x = lo; x < hi; x++) {
        unsigned kchk = (unsigned)(x % 2048); int k = (int)(x / 2048);
        unsigned c[16]; memcpy(c, BASE[k].c, sizeof c); c[1] ^= BASE[k].coin;
        rseed s; ref_from_coeffs(c, &s);
        uint8_t buf[32]; ref_storage(&s, buf);
        unsigned good = buf[30] | ((buf[31] & 7) << 8);
        buf[30] = kchk & 0xff; buf[31] = 0x70 | (kchk >> 8);
        polyseed_data *d = NULL; int st = polyseed_load(buf, &d); r->cases++; r->calls++;
        if (st == POLYSEED_OK) polyseed_free(d);
        int want = (kchk == good) ? ST_OK : ST_CHECKSUM;
        r->digest ^= mix64(x, st);
        if (st != want) { char rep[120], h[65]; hex(buf, 32, h); sprintf(rep, "case e %s", h); res_viol(r, "c02:load-check", rep, "load with check value %u (correct %u) returned %d", kchk, good, st); }
        else { r->validated++; r->cls[st == POLYSEED_OK ? 1 : 0]++; }
    }
}

int main(int argc, char **argv) {
    int a = common_args(argc, argv);
    ref_init(VERIF_ROOT); sec_mark_initial(); env_init(); inject(0);
    polyseed_enable_features(7);
    struct res *r = calloc(1, sizeof *r);
    if (a < argc && !strcmp(argv[a], "case")) {
        const char *w = argv[a + 1];
        if (!strcmp(w, "a")) {
            int p = atoi(argv[a + 2]); unsigned v = atoi(argv[a + 3]);
            long x = (long)(p - 1) * 2048 + v; work_a(x, x + 1, r, NULL);
        } else if (!strcmp(w, "b")) {
            int p = atoi(argv[a + 2]), q = atoi(argv[a + 4]); unsigned v = atoi(argv[a + 3]), ww = atoi(argv[a + 5]);
            unsigned c[16] = {0}; c[p] ^= v; c[q] ^= ww; rseed s; ref_from_coeffs(c, &s);
            int got = lib_check_value(&s, r); unsigned want = ref_mulx_pow(c[p], p) ^ (q != p ? ref_mulx_pow(c[q], q) : 0);
            printf("library %d reference %u\n", got, want); if (got != (int)want) res_viol(r, "c02:additive", "", "mismatch");
        } else if (!strcmp(w, "d")) {
            int li = atoi(argv[a + 2]); unsigned coin = atoi(argv[a + 3]);
            char ph[2048] = ""; for (int i = a + 4; i < argc; i++) { if (i > a + 4) strcat(ph, " "); strcat(ph, argv[i]); }
            polyseed_data *d = NULL; const polyseed_lang *lo = NULL;
            int es = polyseed_decode_explicit(ph, coin, polyseed_get_lang(li), &d); if (es == 0) polyseed_free(d);
            int as = polyseed_decode(ph, coin, &lo, &d); if (as == 0) polyseed_free(d);
            int re = ref_decode(ph, coin, li, 7, 0, CAP, NULL, NULL), ra = ref_decode(ph, coin, -1, 7, 0, CAP, NULL, NULL);
            printf("explicit %d auto %d ; reference explicit %d auto %d\n", es, as, re, ra);
            if (es == 0 || as == 0 || es != re || as != ra) res_viol(r, "c02:d", "", "altered phrase accepted or model mismatch");
        } else if (!strcmp(w, "e")) {
            uint8_t buf[32]; unhexn(argv[a + 2], buf, 32); rseed s; polyseed_data *d = NULL;
            int st = polyseed_load(buf, &d), want = ref_load(buf, 7, &s);
            printf("load %d reference %d\n", st, want); if (st != want) res_viol(r, "c02:e", "", "mismatch");
        }
        for (int i = 0; i < r->nviol; i++) printf("REPRODUCED %s: %s\n", r->v[i].key, r->v[i].msg);
        return r->nviol ? 1 : 0;
    }
    if (a < argc && !strcmp(argv[a], "--stride")) STRIDE = atoi(argv[a + 1]);
    make_bases();
    out_begin();
    par_run(15L * 2048, work_a, NULL, r);
    out_part(STRIDE == 1 ? "a:one-word-polynomials x all check values (load)" : "a:one-word-polynomials x strided check values (load, sanitizer build)", r, CLS_A, "15 x 2048 x 2048 loads; exactly one check value may be accepted, the reference product");
    memset(r, 0, sizeof *r); par_run(165L * 165, work_b, NULL, r);
    out_part("b:additivity on all pairs of basis bits (create path)", r, CLS_A, "");
    if (G_thorough && STRIDE == 1) { memset(r, 0, sizeof *r); par_run(16L * 2048 * 2048, work_b2, NULL, r); out_part("b2:all pairs of one-word polynomials at 16 position pairs (create path)", r, CLS_A, ""); }
    memset(r, 0, sizeof *r); part_c(r);
    out_part("c:distance conditions on the library's own table", r, CLS_C, "T[p][v]!=0 for v!=0 (single error), T[p][d]!=T[q][d] (transposition)");
    memset(r, 0, sizeof *r); par_run((long)NBASE * 16 * 2048, work_d, NULL, r);
    out_part("d:phrases with one word substituted", r, CLS_D, "");
    memset(r, 0, sizeof *r); par_run((long)NBASE * 256, work_swap, NULL, r);
    out_part("d2:phrases with two words exchanged", r, CLS_D, "");
    memset(r, 0, sizeof *r); par_run((long)NBASE * 2048, work_e, NULL, r);
    out_part("e:serialised seeds x all check values", r, CLS_A, "");
    out_kv_int("bases", NBASE);
    out_end();
    return 0;
}
