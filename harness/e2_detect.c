/* E2 family "detect" (C09): automatic language detection never guesses and agrees with explicit
 * decoding.  Bounded-deviation exploration: base phrases (one per language, plus phrases made of
 * tokens that several lists recognise), every single deviation and pairs of deviations from a menu
 * of token replacements (one representative per cross-language recognition class, unknown, empty)
 * and separator changes, crossed with coins, enabled masks and a failing allocation.
 * Oracles: (1) model-free differential auto vs the ten explicit decodes, (2) reference decoder with
 * the full precedence chain, (3) coverage of the table of simultaneously true error conditions. */
#include "h.h"

static const char *CLS[] = { "ok", "num_words", "lang", "checksum", "unsupported", "format(!)", "memory", "mult_lang", NULL };

/* ---- token menu */
#define MAXMENU 120
static char MENU[MAXMENU][64]; static unsigned MENU_MASK[MAXMENU]; static int NMENU, NMENU_SMALL;
static unsigned recog_mask(const char *tok) { unsigned m = 0; for (int li = 0; li < R_NLANG; li++) if (ref_recognise(li, tok) >= 0) m |= 1u << li; return m; }
static void menu_add(const char *tok) {
    unsigned m = recog_mask(tok);
    for (int i = 0; i < NMENU; i++) if (MENU_MASK[i] == m) return;
    if (NMENU < MAXMENU) { strcpy(MENU[NMENU], tok); MENU_MASK[NMENU] = m; NMENU++; }
}
static void build_menu(void) {
    /* classes first met by full words, then by 4-letter prefixes; deterministic order */
    for (int li = 0; li < R_NLANG; li++) for (int i = 0; i < R_NW; i++) {
        menu_add(RL[li].w[i]);
        if (RL[li].prefix && strlen(RL[li].wkey[i]) > 4) { char p[8]; memcpy(p, RL[li].wkey[i], 4); p[4] = 0; menu_add(p); }
    }
    /* order the menu so that the most widely shared classes come first (small menu = first 22) */
    for (int i = 0; i < NMENU; i++) for (int j = i + 1; j < NMENU; j++) {
        if (__builtin_popcount(MENU_MASK[j]) > __builtin_popcount(MENU_MASK[i])) { char t[64]; strcpy(t, MENU[i]); strcpy(MENU[i], MENU[j]); strcpy(MENU[j], t); unsigned m = MENU_MASK[i]; MENU_MASK[i] = MENU_MASK[j]; MENU_MASK[j] = m; }
    }
    NMENU_SMALL = NMENU < 22 ? NMENU : 22;
}

/* ---- phrase structure */
struct phr { char tok[18][64]; int ntok; char sep[18][8]; char lead[8], trail[8]; };
static void phr_str(const struct phr *p, char *out) {
    strcpy(out, p->lead);
    for (int i = 0; i < p->ntok; i++) { if (i) strcat(out, p->sep[i]); strcat(out, p->tok[i]); }
    strcat(out, p->trail);
}
static void phr_from_idx(const unsigned idx[16], int li, struct phr *p, int use_prefix) {
    memset(p, 0, sizeof *p); p->ntok = 16;
    for (int i = 0; i < 16; i++) {
        strcpy(p->tok[i], RL[li].w[idx[i]]); strcpy(p->sep[i], " ");
        if (use_prefix && RL[li].prefix && strlen(RL[li].wkey[idx[i]]) > 4) { memcpy(p->tok[i], RL[li].wkey[idx[i]], 4); p->tok[i][4] = 0; }
    }
}
/* deviations: 0..NM-1 replace token by menu entry; NM unknown; NM+1 empty; NM+2 double the separator before;
 * NM+3 ideographic space before; NM+4 no-break space before; NM+5..7 non-ASCII junk in front; NM+8..10 malformed UTF-8 at the end; then global ones (position ignored):
 * G0 leading space, G1 trailing space, G2 two trailing spaces, G3 17th token, G4 drop last token, G5 trailing ideographic space */
static int NM;           /* menu size in use */
#define NLOCAL (NM + 11)
#define NGLOBAL 11
static void deviate(struct phr *p, int pos, int d) {
    if (d < NM) strcpy(p->tok[pos], MENU[d]);
    else if (d == NM) strcpy(p->tok[pos], "qzqzq");
    else if (d == NM + 1) p->tok[pos][0] = 0;
    else if (d == NM + 2) { if (pos) strcpy(p->sep[pos], "  "); else strcpy(p->lead, " "); }
    else if (d == NM + 3) { if (pos) strcpy(p->sep[pos], "\xE3\x80\x80"); else strcpy(p->lead, "\xE3\x80\x80"); }
    else if (d == NM + 4) { if (pos) strcpy(p->sep[pos], "\xC2\xA0"); else strcpy(p->lead, "\xC2\xA0"); }
    else if (d >= NM + 5 && d <= NM + 7) { /* a non-ASCII character glued in front of the token: inverted exclamation mark, combining acute, byte-order mark */
        static const char *J[3] = { "\xC2\xA1", "\xCC\x81", "\xEF\xBB\xBF" }; char t[80]; snprintf(t, sizeof t, "%s%s", J[d - NM - 5], p->tok[pos]); strncpy(p->tok[pos], t, 63); p->tok[pos][63] = 0; }
    else if (d >= NM + 8 && d <= NM + 10) { /* bytes that are not well-formed UTF-8 at the end of the token: a lone FF, a stray continuation byte, a cut three-byte sequence */
        static const char *J[3] = { "\xFF", "\x80", "\xE3\x80" }; char t[80]; snprintf(t, sizeof t, "%s%s", p->tok[pos], J[d - NM - 8]); strncpy(p->tok[pos], t, 63); p->tok[pos][63] = 0; }
    else switch (d - NLOCAL) {
        case 0: strcpy(p->lead, " "); break;
        case 1: strcpy(p->trail, " "); break;
        case 2: strcpy(p->trail, "  "); break;
        case 3: strcpy(p->tok[16], p->tok[0]); strcpy(p->sep[16], " "); p->ntok = 17; break;
        case 4: p->ntok = 15; break;
        case 5: strcpy(p->trail, "\xE3\x80\x80"); break;
        case 6: case 7: { /* token 8 cut to four bytes (a valid abbreviation where the list allows it), token 13 = those four bytes + letters no word has (6), or + the rest of another word (7) */
            char pre[8]; memcpy(pre, p->tok[7], 4); pre[4] = 0; if (strlen(p->tok[7]) >= 4 && !(pre[3] & 0x80)) { strcpy(p->tok[7], pre); snprintf(p->tok[12], 64, "%s%s", pre, d - NLOCAL == 6 ? "zzz" : "rolling"); } } break;
        case 8: strcpy(p->trail, "\n"); break;           /* what a line read from a file or a terminal ends with: part of the last token, for both decoders alike */
        case 9: strcpy(p->trail, "\r\n"); break;
        case 10: strcpy(p->trail, " \n"); break;
    }
}

/* ---- bases */
#define MAXBASE 60
static struct { unsigned idx[16]; int li; int prefix; char name[48]; } BASE[MAXBASE]; static int NBASE;
static void add_base(const unsigned idx[16], int li, int prefix, const char *name) { memcpy(BASE[NBASE].idx, idx, 64); BASE[NBASE].li = li; BASE[NBASE].prefix = prefix; snprintf(BASE[NBASE].name, 48, "%s", name); NBASE++; }
static void fix_check(unsigned idx[16], unsigned coin) { idx[1] ^= coin; idx[0] = 0; idx[0] = ref_eval(idx); idx[1] ^= coin; }
static void build_bases(void) {
    uint64_t ps = 0xDE7EC7 + (uint64_t)G_seed;
    for (int li = 0; li < R_NLANG; li++) {
        unsigned idx[16]; for (int i = 1; i < 16; i++) idx[i] = (unsigned)(prng(&ps) & 2047); idx[2] &= ~1u; idx[3] &= ~1u; idx[4] &= ~1u; idx[5] &= ~1u;
        if (li & 1) idx[3] |= 1;       /* user feature bit 4: valid under mask 7, unsupported under mask 0 */
        fix_check(idx, 0); char nm[48]; snprintf(nm, sizeof nm, "valid-%s", RL[li].code); add_base(idx, li, 0, nm);
        idx[0] ^= 0x2A5; snprintf(nm, sizeof nm, "badcheck-%s", RL[li].code); add_base(idx, li, 0, nm);
    }
    /* a valid phrase per language that carries the longest words of its list (decomposed length) at three positions */
    for (int li = 0; li < R_NLANG; li++) {
        unsigned top[3] = { 0, 0, 0 }; size_t tl[3] = { 0, 0, 0 };
        for (unsigned i = 0; i < R_NW; i++) { size_t l = RL[li].wlen[i]; for (int k = 0; k < 3; k++) if (l > tl[k] || (l == tl[k] && k == 2)) { for (int q = 2; q > k; q--) { tl[q] = tl[q - 1]; top[q] = top[q - 1]; } tl[k] = l; top[k] = i; break; } }
        unsigned idx[16]; for (int i = 1; i < 16; i++) idx[i] = (unsigned)(prng(&ps) & 2047); idx[2] &= ~1u; idx[3] &= ~1u; idx[4] &= ~1u; idx[5] &= ~1u;
        idx[6] = top[0]; idx[9] = top[1]; idx[15] = top[2];
        fix_check(idx, 0); char nm[48]; snprintf(nm, sizeof nm, "longwords-%s", RL[li].code); add_base(idx, li, 0, nm);
    }
    /* tokens shared between lists: for a pair/set of languages collect word indices (in language A) whose token is recognised by all of the set */
    struct { int a; unsigned need; int prefix; const char *name; } SH[] = {
        { 0, (1u << 0) | (1u << 3) | (1u << 4) | (1u << 5) | (1u << 6) | (1u << 7), 1, "shared-latin6" },
        { 0, (1u << 0) | (1u << 4), 0, "shared-en-fr" },
        { 8, (1u << 8) | (1u << 9), 0, "shared-zh" },
        { 3, (1u << 3) | (1u << 7), 1, "shared-es-pt" },
    };
    for (unsigned s = 0; s < sizeof SH / sizeof *SH; s++) {
        unsigned cand[R_NW]; int nc = 0;
        for (unsigned i = 0; i < R_NW; i++) {
            char tok[64]; strcpy(tok, RL[SH[s].a].w[i]);
            if (SH[s].prefix) { if (strlen(RL[SH[s].a].wkey[i]) <= 4) continue; memcpy(tok, RL[SH[s].a].wkey[i], 4); tok[4] = 0; }
            if ((recog_mask(tok) & SH[s].need) == SH[s].need) cand[nc++] = i;
        }
        if (nc < 8) continue;
        /* choose 15 data words among candidates (even where a feature bit must be clear) and search a check word that is also a candidate */
        for (int attempt = 0; attempt < 4000; attempt++) {
            unsigned idx[16]; for (int i = 1; i < 16; i++) idx[i] = cand[prng(&ps) % (unsigned)nc];
            if ((idx[2] & 1)) continue;
            fix_check(idx, 0);
            int ok = 0; for (int c = 0; c < nc; c++) if (cand[c] == idx[0]) ok = 1;
            if (!ok) continue;
            char nm[48]; snprintf(nm, sizeof nm, "%s-valid", SH[s].name); add_base(idx, SH[s].a, SH[s].prefix, nm);
            idx[0] = cand[(prng(&ps) % (unsigned)nc)]; unsigned t[16]; memcpy(t, idx, 64); unsigned good = (t[0] = 0, ref_eval(t));
            if (idx[0] == good) idx[0] = cand[0] == good ? cand[1] : cand[0];
            snprintf(nm, sizeof nm, "%s-badcheck", SH[s].name); add_base(idx, SH[s].a, SH[s].prefix, nm);
            break;
        }
    }
}

/* ---- decision-table coverage */
static uint8_t ROWS[192];
static int row_of(int wc, int nl, int ck, int af, int uf, int dec) { return ((((wc * 3 + nl) * 2 + ck) * 2 + af) * 2 + uf) * 2 + dec; }

static struct res *SHORT_RES;
struct combo { unsigned coin; unsigned mask; int fail; };
static const struct combo COMBOS[] = { { 0, 7, 0 }, { 0, 0, 1 }, { 1, 7, 0 }, { 0, 0, 0 }, { 0, 7, 1 }, { 2047, 5, 1 } };
static int NCOMBO = 2;

static void run_string(const char *s, const struct combo *cb, struct res *r, uint64_t id, const char *basename_) {
    char rep[2800], key[160];
    { static char hx[5400]; hex(s, strlen(s), hx); snprintf(rep, sizeof rep, "case %u %u %d %.2500s", cb->coin, cb->mask, cb->fail, hx); }
    extern char *G_cur; if (G_cur) { strncpy(G_cur, rep, 1999); G_cur[1999] = 0; }
    polyseed_enable_features(cb->mask);
    char copy[2800]; strcpy(copy, s);
    int X[R_NLANG]; uint8_t XS[R_NLANG][32];
    r->cases++;
    /* explicit decodes */
    for (int li = 0; li < R_NLANG; li++) {
        polyseed_data *d = NULL; env_clear_log(); E.fail_at = cb->fail ? 0 : -1;
        X[li] = polyseed_decode_explicit(copy, (polyseed_coin)cb->coin, polyseed_get_lang(li), &d); E.fail_at = -1; r->calls++;
        memset(XS[li], 0, 32); if (X[li] == POLYSEED_OK) { polyseed_store(d, XS[li]); polyseed_free(d); }
        rseed rs; int want = ref_decode(s, cb->coin, li, cb->mask, cb->fail, CAP, &rs, NULL);
        if (X[li] != want) { snprintf(key, sizeof key, "c09:explicit-model:%d->%d", want, X[li]); res_viol(r, key, rep, "[%s] decode_explicit(%s) returned %d, reference decoder %d", basename_, RL[li].code, X[li], want); return; }
        if (want == ST_OK) { uint8_t b[32]; ref_storage(&rs, b); if (memcmp(b, XS[li], 32)) { res_viol(r, "c09:explicit-seed", rep, "[%s] decode_explicit(%s) seed differs from the reference", basename_, RL[li].code); return; } }
        if (X[li] >= 0 && X[li] < 8) r->cls[X[li]]++;
    }
    /* automatic */
    polyseed_data *d = NULL; const polyseed_lang *lo = NULL; env_clear_log(); E.fail_at = cb->fail ? 0 : -1;
    int A = polyseed_decode(copy, (polyseed_coin)cb->coin, &lo, &d); E.fail_at = -1; r->calls++;
    if ((id & 3) == 1) {   /* lang_out is optional: the same call with NULL must give the same status */
        polyseed_data *d2 = NULL; env_clear_log(); E.fail_at = cb->fail ? 0 : -1; int A2 = polyseed_decode(copy, (polyseed_coin)cb->coin, NULL, &d2); E.fail_at = -1; r->calls++; if (A2 == POLYSEED_OK) polyseed_free(d2);
        if (A2 != A) { res_viol(r, "c09:null-lang-out", rep, "polyseed_decode with lang_out = NULL returned %d, with a pointer %d", A2, A); return; }
    }
    uint8_t AS[32]; memset(AS, 0, 32); if (A == POLYSEED_OK) { polyseed_store(d, AS); polyseed_free(d); }
    if (A >= 0 && A < 8) r->cls[A]++;
    r->digest ^= mix64(id, (uint64_t)A);
    if (strcmp(copy, s)) { res_viol(r, "c09:input-modified", rep, "decoder modified its input"); return; }
    if (ledger_live()) { res_viol(r, "c09:leak", rep, "blocks left allocated"); ledger_drop_all(); return; }
    /* (1) differential, model-free */
    int nrec = 0, which = -1, allnum = 1;
    for (int li = 0; li < R_NLANG; li++) { if (X[li] != POLYSEED_ERR_NUM_WORDS) allnum = 0; if (X[li] != POLYSEED_ERR_LANG && X[li] != POLYSEED_ERR_NUM_WORDS) { nrec++; which = li; } }
    const char *bad = NULL;
    if (A == POLYSEED_ERR_NUM_WORDS) { if (!allnum) bad = "auto reports a wrong word count but some explicit decode does not"; }
    else if (allnum) bad = "every explicit decode reports a wrong word count but auto does not";
    else if (A == POLYSEED_ERR_LANG) { if (nrec != 0) bad = "auto reports the language error although a language recognises all tokens"; }
    else if (A == POLYSEED_ERR_MULT_LANG) { if (nrec < 2) bad = "auto reports multiple languages but fewer than two recognise all tokens"; }
    else { if (nrec != 1) bad = nrec == 0 ? "auto decoded although no language recognises all tokens" : "auto picked a language although several recognise all tokens (it guessed)";
           else if (X[which] != A) bad = "auto and the explicit decode of the only matching language disagree on the status";
           else if (A == POLYSEED_OK && (lo != polyseed_get_lang(which) || memcmp(AS, XS[which], 32))) bad = "auto reports a different language or seed than explicit decoding"; }
    if (bad) { snprintf(key, sizeof key, "c09:differential:%d", A); res_viol(r, key, rep, "[%s] %s (auto=%d, languages recognising all tokens=%d)", basename_, bad, A, nrec); return; }
    /* (2) reference decoder */
    rseed rs; int rl = -1; int want = ref_decode(s, cb->coin, -1, cb->mask, cb->fail, CAP, &rs, &rl);
    if (A != want || (A == POLYSEED_OK && lo != polyseed_get_lang(rl))) { snprintf(key, sizeof key, "c09:auto-model:%d->%d", want, A); res_viol(r, key, rep, "[%s] decode returned %d, reference decoder %d", basename_, A, want); return; }
    r->validated++;
    /* (3) decision table rows hit */
    {
        unsigned wm = 0; int cnt = ref_count_langs(s, CAP, &wm);
        int wc = cnt < 0, nl = cnt < 0 ? 0 : cnt > 2 ? 2 : cnt;
        int ck = 0, uf = 0;
        if (cnt == 1) { int l = __builtin_ctz(wm); ck = (ref_decode(s, cb->coin, l, 7, 0, CAP, NULL, NULL) == ST_CHECKSUM); uf = (ref_decode(s, cb->coin, l, cb->mask, 0, CAP, NULL, NULL) == ST_UNSUPPORTED); }
        ROWS[row_of(wc, nl, ck, cb->fail, uf, 0)] = 1;
        for (int li = 0; li < R_NLANG; li++) {
            int rec = !wc && (wm >> li & 1); int ck2 = 0, uf2 = 0;
            if (rec) { int st0 = ref_decode(s, cb->coin, li, cb->mask, 0, CAP, NULL, NULL); ck2 = st0 == ST_CHECKSUM; uf2 = st0 == ST_UNSUPPORTED; }
            ROWS[row_of(wc, rec ? 1 : 0, ck2, cb->fail, uf2, 1)] = 1;
        }
    }
}

struct job { int base; int p1, d1, p2, d2; };
static struct job *JOBS; static long NJ, JCAP;
static void job_add(int b, int p1, int d1, int p2, int d2) { if (NJ == JCAP) { JCAP = JCAP ? JCAP * 2 : 1 << 16; JOBS = realloc(JOBS, sizeof(struct job) * (size_t)JCAP); } JOBS[NJ++] = (struct job){ b, p1, d1, p2, d2 }; }
static void job_string(const struct job *j, char *out) {
    struct phr p; phr_from_idx(BASE[j->base].idx, BASE[j->base].li, &p, BASE[j->base].prefix);
    if (j->d1 >= 0) deviate(&p, j->p1, j->d1);
    if (j->d2 >= 0) deviate(&p, j->p2, j->d2);
    phr_str(&p, out);
}
static void work(long lo, long hi, struct res *r, void *arg) {
    (void)arg;
    for (long x = lo; x < hi; x++) {
        if ((x & 15) == 0 && past_deadline()) { r->timed_out = 1; break; }
        char s[2600]; job_string(&JOBS[x], s);
        int nc = (JOBS[x].d2 < 0) ? (int)(sizeof COMBOS / sizeof *COMBOS) : NCOMBO;     /* single deviations get every combination */
        for (int c = 0; c < nc; c++) run_string(s, &COMBOS[c], r, (uint64_t)x * 8 + (uint64_t)c, BASE[JOBS[x].base].name);
        if (r->nsample < 2 && JOBS[x].d2 >= 0 && (x % 977) == 0) res_sample(r, "[%s] deviations (pos %d,#%d)+(pos %d,#%d): %.250s", BASE[JOBS[x].base].name, JOBS[x].p1, JOBS[x].d1, JOBS[x].p2, JOBS[x].d2, s);
    }
    /* ship rows hit through the class counters 8..  (bitmap -> counts) */
    for (int i = 0; i < 192; i++) if (ROWS[i]) r->cls[8 + i / 6] += (1ull << (10 * (i % 6)));   /* six 10-bit counters per slot; at most one increment per chunk */
}

int main(int argc, char **argv) {
    int a = common_args(argc, argv);
    ref_init(VERIF_ROOT); sec_mark_initial(); env_init(); inject(0);
    struct res *r = calloc(1, sizeof *r);
    if (a < argc && !strcmp(argv[a], "case")) {    /* case <coin> <mask> <fail> <string...>  (tokens re-joined with single spaces is NOT faithful; the string is passed as ONE argument) */
        struct combo cb = { (unsigned)atoi(argv[a + 1]), (unsigned)atoi(argv[a + 2]), atoi(argv[a + 3]) };
        static char sbuf[2800]; { int n = a + 4 < argc ? unhexn(argv[a + 4], (uint8_t *)sbuf, sizeof sbuf - 1) : 0; sbuf[n < 0 ? 0 : n] = 0; } const char *s = sbuf;
        run_string(s, &cb, r, 0, "replay");
        polyseed_data *d = NULL; const polyseed_lang *lo = NULL; int A = polyseed_decode(s, cb.coin, &lo, &d);
        printf("decode(\"%s\", coin %u) -> %d ; reference %d\n", s, cb.coin, A, ref_decode(s, cb.coin, -1, cb.mask, 0, CAP, NULL, NULL));
        for (int i = 0; i < r->nviol; i++) printf("REPRODUCED %s: %s\n", r->v[i].key, r->v[i].msg);
        return r->nviol ? 1 : 0;
    }
    build_menu(); build_bases();
    NCOMBO = G_thorough ? 4 : 2;
    /* sixteen tokens that are as short as tokens get (the count is right, so the answer is about the language) */
    { static const char *SHORT16[] = { "a b c d e f g h i j k l m n o p", "               ", "x x x x x x x x x x x x x x x x", "ab cd ef gh ij kl mn op qr st uv wx yz ab cd ef",
                                       "act add age aim air all and any ape arm art ask bag bar bed x", "\xE7\x9A\x84 \xE4\xB8\x80 \xE6\x98\xAF \xE5\x9C\xA8 \xE4\xB8\x8D \xE4\xBA\x86 \xE6\x9C\x89 \xE5\x92\x8C \xE4\xBA\xBA \xE8\xBF\x99 \xE4\xB8\xAD \xE5\xA4\xA7 \xE4\xB8\xBA \xE4\xB8\x8A \xE4\xB8\xAA x" };
      struct res *rs_ = calloc(1, sizeof *rs_);
      for (unsigned q = 0; q < sizeof SHORT16 / sizeof *SHORT16; q++) for (int c = 0; c < 2; c++) run_string(SHORT16[q], &COMBOS[c], rs_, 9000000 + q * 8 + (unsigned)c, "short16");
      SHORT_RES = rs_; }
    /* jobs: base itself, all single deviations (full menu), pairs */
    for (int b = 0; b < NBASE; b++) {
        NM = NMENU;
        job_add(b, 0, -1, 0, -1);
        for (int p = 0; p < 16; p++) for (int d = 0; d < NLOCAL; d++) job_add(b, p, d, 0, -1);
        for (int g = 0; g < NGLOBAL; g++) job_add(b, 0, NLOCAL + g, 0, -1);
    }
    long nsingle = NJ;
    /* pairs are generated with the small menu: encode menu size in d by switching NM at string-build time is not possible per job,
     * so pairs index the full menu but only entries < NMENU_SMALL and the five local + six global special deviations */
    {
        int PP[120][2], npp = 0;
        if (G_thorough) { for (int p = 0; p < 16; p++) for (int q = p + 1; q < 16; q++) { PP[npp][0] = p; PP[npp][1] = q; npp++; } }
        else { PP[0][0] = 0; PP[0][1] = 1; PP[1][0] = 7; PP[1][1] = 8; PP[2][0] = 3; PP[2][1] = 15; npp = 3; }
        NM = NMENU;
        int DL[80], ndl = 0;
        for (int d = 0; d < NMENU_SMALL; d++) DL[ndl++] = d;
        for (int d = NM; d < NM + 11; d++) DL[ndl++] = d;
        for (int b = 0; b < NBASE; b++) {
            for (int k = 0; k < npp; k++) for (int i = 0; i < ndl; i++) for (int j = 0; j < ndl; j++) job_add(b, PP[k][0], DL[i], PP[k][1], DL[j]);
            /* a local deviation combined with every global one */
            for (int p = 0; p < 16; p += 5) for (int i = 0; i < ndl; i++) for (int g = 0; g < NGLOBAL; g++) job_add(b, p, DL[i], 0, NLOCAL + g);
            for (int g = 0; g < NGLOBAL; g++) for (int h = g + 1; h < NGLOBAL; h++) job_add(b, 0, NLOCAL + g, 0, NLOCAL + h);
        }
    }
    NM = NMENU;
    out_begin();
    par_run(NJ, work, NULL, r);
    /* decode rows */
    int rows = 0; char rowlist[900] = ""; for (int i = 0; i < 192; i++) if ((r->cls[8 + i / 6] >> (10 * (i % 6))) & 0x3FF) { rows++; }
    for (int i = 8; i < NCLS; i++) r->cls[i] = 0;
    (void)rowlist;
    char note[300]; snprintf(note, sizeof note, "%d bases, token menu of %d recognition classes (+unknown, empty), %ld single-deviation strings x 6 combinations, %ld pair strings x %d combinations; each string decoded automatically and explicitly in all 10 languages", NBASE, NMENU, nsingle, NJ - nsingle, NCOMBO);
    out_part("bounded-deviation strings x (coin, mask, allocation) combinations", r, CLS, note);
    if (SHORT_RES) out_part("sixteen shortest-possible tokens (one or two letters, empty, one ideograph)", SHORT_RES, CLS, "a correct word count is never reported as a wrong one");
    { int feas = 0; for (int wc = 0; wc < 2; wc++) for (int nl = 0; nl < 3; nl++) for (int ck = 0; ck < 2; ck++) for (int uf = 0; uf < 2; uf++) for (int dec = 0; dec < 2; dec++) {
          if (wc && (nl || ck || uf)) continue; if (dec && nl == 2) continue; if (nl != 1 && (ck || uf)) continue; if (ck && uf) continue; feas += 2; /* x allocation ok/fails */ }
      out_kv_int("decision_rows_feasible", feas); }
    out_kv_int("bases", NBASE); out_kv_int("recognition_classes", NMENU); out_kv_int("decision_rows_hit", rows); out_kv_int("strings", NJ);
    out_end();
    return 0;
}
