/* E2 family "fault" (C15): every entry point x every outcome class x every allocation request made
 * to fail (fail_at = none, 0, 1), with the injected allocator and with the libc fall-back.  Oracle:
 * status equals the reference model with alloc_fails, nothing left allocated after a failed call,
 * nothing foreign / NULL / repeated given to free, and the following call behaves normally. */
#include "h.h"
static const char *CLS[] = { "ok", "num_words", "lang", "checksum", "unsupported", "format", "memory", "mult_lang", NULL };
struct inp { char name[40]; int kind; /* 0 load 1 decode auto 2 decode explicit 3 create */ uint8_t buf[32]; char str[1200]; int li; unsigned coin; unsigned feat; };
static struct inp IN[240]; static int NIN;
static int seen[4][8][3]; static long LAST_REQUESTS, MAX_REQUESTS;

static void run(const struct inp *in, unsigned mask, long fail, int nullalloc, struct res *r) {
    char rep[100], key[160]; sprintf(rep, "case %d %u %ld %d", (int)(in - IN), mask, fail, nullalloc);
    polyseed_dependency d; deps_variant(0, 0, nullalloc, nullalloc, &d); polyseed_inject(&d);
    polyseed_enable_features(mask);
    env_clear_log(); E.fail_at = fail;
    polyseed_data *s = (polyseed_data *)(uintptr_t)0xBAD; const polyseed_lang *lo = NULL; int st = -1, want = -1; rseed rs;
    /* status the model gives when no allocation fails */
    int nofault = -1;
    switch (in->kind) {
    case 0: st = polyseed_load(in->buf, &s); nofault = ref_load(in->buf, mask, &rs); break;
    case 1: st = polyseed_decode(in->str, in->coin, (fail & 1) ? NULL : &lo, &s); nofault = ref_decode(in->str, in->coin, -1, mask, 0, CAP, &rs, NULL); break;
    case 2: st = polyseed_decode_explicit(in->str, in->coin, polyseed_get_lang(in->li), &s); nofault = ref_decode(in->str, in->coin, in->li, mask, 0, CAP, &rs, NULL); break;
    case 3: st = polyseed_create(in->feat, &s); nofault = !ref_supported(in->feat & 7, mask) ? ST_UNSUPPORTED : ST_OK; break;
    }
    LAST_REQUESTS = E.alloc_seq;
    int fired = (fail >= 0 && E.alloc_seq > fail);        /* was the failing request actually made? */
    int want2 = -1;
    if (!fired) want = nofault;
    else {
        /* the failing request was made during this call: C15 asks for the memory status.  For phrases that fail earlier checks the
         * ordering clause of C09 (word count / language / ambiguity / checksum before memory) asks for the earlier status; which of
         * the two is right is C09's business (e2_detect runs the decoders under a refusing allocator), here both are clean reports */
        want = ST_MEMORY;
        if ((in->kind == 1 || in->kind == 2) && (nofault == ST_NUM_WORDS || nofault == ST_LANG || nofault == ST_MULT_LANG || nofault == ST_CHECKSUM)) want2 = nofault;
        if (in->kind == 3 && nofault == ST_UNSUPPORTED) want2 = ST_UNSUPPORTED;
    }
    if (st == want2) want = want2;
    E.fail_at = -1;
    r->cases++; r->calls++;
    r->digest ^= mix64((uint64_t)(in - IN) * 64 + mask * 8 + (uint64_t)(fail + 1) * 2 + (uint64_t)nullalloc, st);
    if (st >= 0 && st < 8) { r->cls[st]++; seen[in->kind][st][fail < 0 ? 0 : fired ? 1 : 2] = 1; }
    const char *bad = NULL; static char why[200];
    if (st != want) { snprintf(why, sizeof why, "status %d, model %d", st, want); bad = why; }
    else if (st == POLYSEED_OK) { if (ledger_live() != 1) bad = "successful call: not exactly one block live"; else { uint8_t a[32], b[32]; polyseed_store(s, a); if (in->kind != 3) { ref_storage(&rs, b); if (memcmp(a, b, 32)) bad = "seed differs from the model"; } polyseed_free(s); if (ledger_live()) bad = "block not returned by free"; } }
    else if (ledger_live()) bad = "failed call left a block allocated";
    if (!bad && (E.err_foreign_free || E.err_free_null)) bad = "foreign / NULL pointer passed to free";
    if (!bad && nullalloc && (E.n_alloc || E.n_free)) bad = "injected allocator used although its entries are NULL";
    if (!bad && !nullalloc && (E.n_libc_malloc || E.n_libc_free)) bad = "libc allocator used although an allocator was injected";
    /* whatever is released on the way out - a seed block or any temporary block - was wiped through the injected memzero first */
    if (E.err_free_unwiped || E.err_free_dirty) { snprintf(key, sizeof key, "c16:free-unwiped:fault:%s", in->name); res_viol(r, key, rep, "%s mask=%u fail_at=%ld: %d block(s) handed to free without having been wiped (%d still holding data)", in->name, mask, fail, E.err_free_unwiped + E.err_free_dirty, E.err_free_dirty); E.err_free_unwiped = E.err_free_dirty = 0; }
    /* the following call behaves normally */
    if (!bad) { polyseed_enable_features(7); polyseed_data *t = NULL; int st2 = polyseed_create(1, &t); r->calls++; if (st2 != POLYSEED_OK) bad = "the call after the fault did not behave normally"; else polyseed_free(t); }
    if (bad) { snprintf(key, sizeof key, "c15:fault:%s:%s", in->name, fail >= 0 ? "alloc-fails" : "alloc-ok"); res_viol(r, key, rep, "%s mask=%u fail_at=%ld libc-allocator=%d: %s", in->name, mask, fail, nullalloc, bad); ledger_drop_all(); }
    else r->validated++;
}

/* part 2: the result of every constructor must not depend on what fresh memory contains */
static void fill_differential(const struct inp *in, unsigned mask, struct res *r) {
    static const uint8_t FILLS[] = { 0x00, 0xDD, 0xFF, 0x5A };
    obs ref_o; int have = 0; char rep[100], key[160];
    sprintf(rep, "case %d %u -1 0", (int)(in - IN), mask);
    polyseed_dependency d; deps_variant(0, 0, 0, 0, &d); polyseed_inject(&d);
    polyseed_enable_features(mask);
    for (unsigned f = 0; f < sizeof FILLS; f++) {
        E.alloc_fill_set = 1; E.alloc_fill = FILLS[f]; env_clear_log(); E.fail_at = -1;
        polyseed_data *s = NULL; const polyseed_lang *lo = NULL; int st = -1;
        memcpy(E.tape[0], "\x10\x32\x54\x76\x98\xba\xdc\xfe\x01\x23\x45\x67\x89\xab\xcd\xef\x13\x57\x9b", 19);
        switch (in->kind) {
        case 0: st = polyseed_load(in->buf, &s); break;
        case 1: st = polyseed_decode(in->str, in->coin, &lo, &s); break;
        case 2: st = polyseed_decode_explicit(in->str, in->coin, polyseed_get_lang(in->li), &s); break;
        case 3: st = polyseed_create(in->feat, &s); break;
        }
        r->calls++;
        if (st != POLYSEED_OK) { E.alloc_fill_set = 0; return; }     /* only successful constructors hand out a seed */
        obs o; observe(s, 11, &o); r->calls += 13;
        /* also what a later password operation and re-encoding make of it */
        polyseed_crypt(s, "k"); obs o2; observe(s, 11, &o2); polyseed_free(s); r->calls += 15;
        memcpy(o.kdf_salt + 28, o2.store + 10, 4);    /* fold a few bytes of the second observation into the first for one comparison */
        if (!have) { ref_o = o; have = 1; }
        else if (!obs_eq(&ref_o, &o)) {
            snprintf(key, sizeof key, "c15:fresh-memory:%s", in->name);
            res_viol(r, key, rep, "%s: the seed handed out depends on the contents of freshly allocated memory (fill 0x%02x vs 0x00: store / getters / KDF inputs differ)", in->name, FILLS[f]);
            E.alloc_fill_set = 0; return;
        }
    }
    E.alloc_fill_set = 0;
    r->cases++; r->validated++;
}

/* polyseed_encode cannot report a status: whatever the allocator does, it must emit the reference phrase and leak nothing */
static void encode_under_faults(struct res *r) {
    rseed base; memset(&base, 0, sizeof base); for (int i = 0; i < 19; i++) base.secret[i] = (uint8_t)(0xB1 + 23 * i); base.secret[18] &= 0x3F; base.birthday = 321; base.features = 2;
    polyseed_dependency d; deps_variant(0, 0, 0, 0, &d); polyseed_inject(&d); polyseed_enable_features(7);
    for (int li = 0; li < R_NLANG; li++) for (unsigned coin = 0; coin < 3; coin++) {
        polyseed_data *s = seed_from_ref(&base); if (!s) { res_viol(r, "c15:encode-setup", "", "cannot load"); return; }
        char exp[2048]; size_t en = ref_phrase(&base, li, coin, exp, 0);
        env_clear_log(); polyseed_str out; size_t n = polyseed_encode(s, polyseed_get_lang(li), (polyseed_coin)coin, out); long nreq = E.alloc_seq; r->calls++;
        for (long fail = 0; fail <= nreq; fail++) {
            env_clear_log(); E.fail_at = fail; memset(out, 0x33, sizeof out);
            n = polyseed_encode(s, polyseed_get_lang(li), (polyseed_coin)coin, out); E.fail_at = -1; r->calls++; r->cases++;
            char rep[64]; sprintf(rep, "encode %d %u %ld", li, coin, fail);
            if (n != en || memcmp(out, exp, en + 1)) { char key[100]; snprintf(key, sizeof key, "c15:encode-under-fault:%s", RL[li].code); res_viol(r, key, rep, "polyseed_encode (%s) with allocation request #%ld failing emitted a phrase that differs from the fault-free one", RL[li].code, fail); break; }
            if (ledger_live() != 1 || E.err_foreign_free || E.err_free_null) { res_viol(r, "c15:encode-ledger", rep, "polyseed_encode left %d extra block(s) / foreign frees %d", ledger_live() - 1, E.err_foreign_free); break; }
            r->validated++;
        }
        polyseed_free(s);
    }
}

/* polyseed_crypt cannot report a status either: with every request of the call failing in turn it must still apply the
 * password operation exactly (flag toggled, mask of NFKD(password) applied) and leak nothing */
static void crypt_under_faults(struct res *r) {
    static const char *PW[] = { "plain ascii password", "contrase\xC3\xB1a", "\xEF\xBD\xB6\xEF\xBE\x9E", "" };
    rseed base; memset(&base, 0, sizeof base); for (int i = 0; i < 19; i++) base.secret[i] = (uint8_t)(0x5B + 13 * i); base.secret[18] &= 0x3F; base.birthday = 77; base.features = 1;
    polyseed_dependency d; deps_variant(0, 0, 0, 0, &d); polyseed_inject(&d); polyseed_enable_features(7);
    for (unsigned k = 0; k < 4; k++) {
        polyseed_data *s = seed_from_ref(&base); if (!s) { res_viol(r, "c15:crypt-setup", "", "cannot load"); return; }
        env_clear_log(); polyseed_crypt(s, PW[k]); long nreq = E.alloc_seq; polyseed_crypt(s, PW[k]); r->calls += 2;
        for (long fail = 0; fail <= nreq; fail++) {
            rseed want = base; ref_crypt(&want, E.mask);
            env_clear_log(); E.fail_at = fail; polyseed_crypt(s, PW[k]); E.fail_at = -1; r->calls++; r->cases++;
            uint8_t st[32], exp[32]; polyseed_store(s, st); ref_storage(&want, exp);
            char rep[64]; sprintf(rep, "crypt %u %ld", k, fail);
            if (memcmp(st, exp, 32) || polyseed_is_encrypted(s) != 1) { res_viol(r, "c15:crypt-under-fault", rep, "polyseed_crypt with allocation request #%ld failing did not apply the password operation (encrypted flag %d)", fail, polyseed_is_encrypted(s)); break; }
            if (ledger_live() != 1 || E.err_foreign_free || E.err_free_null) { res_viol(r, "c15:crypt-ledger", rep, "polyseed_crypt left %d extra block(s)", ledger_live() - 1); break; }
            polyseed_crypt(s, PW[k]); r->validated++;
        }
        polyseed_free(s);
    }
}

int main(int argc, char **argv) {
    int a = common_args(argc, argv);
    ref_init(VERIF_ROOT); sec_mark_initial(); env_init(); inject(0); polyseed_enable_features(7);
    struct res *r = calloc(1, sizeof *r);
    /* inputs, one per outcome class and entry point */
    rseed base; memset(&base, 0, sizeof base); for (int i = 0; i < 19; i++) base.secret[i] = (uint8_t)(7 * i + 1); base.secret[18] &= 0x3F; base.birthday = 33;
    for (unsigned f = 0; f < 32; f += (f < 8 ? 1 : 8)) {       /* features 0..7, 8, 16, 24 */
        rseed s = base; s.features = f;
        struct inp *in = &IN[NIN++]; snprintf(in->name, sizeof in->name, "load(features=%u)", f); in->kind = 0; ref_storage(&s, in->buf);
        for (int li = 0; li < R_NLANG; li += 3) {
            in = &IN[NIN++]; snprintf(in->name, sizeof in->name, "decode(%s,features=%u)", RL[li].code, f); in->kind = 1; in->coin = 9; ref_phrase(&s, li, 9, in->str, 0);
            in = &IN[NIN++]; snprintf(in->name, sizeof in->name, "decode_explicit(%s,features=%u)", RL[li].code, f); in->kind = 2; in->li = li; in->coin = 9; ref_phrase(&s, li, 9, in->str, 0);
        }
        if (f < 8) { in = &IN[NIN++]; snprintf(in->name, sizeof in->name, "create(features=%u)", f); in->kind = 3; in->feat = f; }
    }
    /* extreme seed values: the all-zero seed (every field and the check value zero - it must be released like any other) and the all-ones one */
    for (int z = 0; z < 2; z++) {
        rseed e; memset(&e, 0, sizeof e); if (z) { memset(e.secret, 0xFF, 19); e.secret[18] = 0x3F; e.birthday = 1023; e.features = 7; }
        struct inp *in = &IN[NIN++]; snprintf(in->name, sizeof in->name, "load(all-%s)", z ? "ones" : "zero"); in->kind = 0; ref_storage(&e, in->buf);
        in = &IN[NIN++]; snprintf(in->name, sizeof in->name, "decode_explicit(en,all-%s)", z ? "ones" : "zero"); in->kind = 2; in->li = 0; in->coin = 0; ref_phrase(&e, 0, 0, in->str, 0);
        in = &IN[NIN++]; snprintf(in->name, sizeof in->name, "decode(ko,all-%s)", z ? "ones" : "zero"); in->kind = 1; in->coin = 0; ref_phrase(&e, 2, 0, in->str, 0);
    }
    { struct inp *in = &IN[NIN++]; strcpy(in->name, "load(bad-header)"); ref_storage(&base, in->buf); in->buf[0] ^= 1;
      in = &IN[NIN++]; strcpy(in->name, "load(bad-checksum)"); ref_storage(&base, in->buf); in->buf[30] ^= 1;
      in = &IN[NIN++]; strcpy(in->name, "load(bad-footer)"); ref_storage(&base, in->buf); in->buf[31] ^= 0x80;
      in = &IN[NIN++]; strcpy(in->name, "load(bad-extra-byte)"); ref_storage(&base, in->buf); in->buf[29] = 0;
      in = &IN[NIN++]; strcpy(in->name, "load(secret-too-long)"); ref_storage(&base, in->buf); in->buf[28] |= 0x80;
      in = &IN[NIN++]; strcpy(in->name, "load(top-bit)"); ref_storage(&base, in->buf); in->buf[9] |= 0x80; }
    for (int k = 1; k <= 2; k++) {
        struct inp *in = &IN[NIN++]; snprintf(in->name, sizeof in->name, "decode%s(15-words)", k == 2 ? "_explicit" : ""); in->kind = k; ref_phrase(&base, 0, 0, in->str, 0); *strrchr(in->str, ' ') = 0;
        in = &IN[NIN++]; snprintf(in->name, sizeof in->name, "decode%s(17-words)", k == 2 ? "_explicit" : ""); in->kind = k; ref_phrase(&base, 0, 0, in->str, 0); strcat(in->str, " abandon");
        in = &IN[NIN++]; snprintf(in->name, sizeof in->name, "decode%s(unknown-word)", k == 2 ? "_explicit" : ""); in->kind = k; ref_phrase(&base, 0, 0, in->str, 0); memcpy(in->str, "zzzz", 4);
        in = &IN[NIN++]; snprintf(in->name, sizeof in->name, "decode%s(wrong-coin)", k == 2 ? "_explicit" : ""); in->kind = k; in->coin = 5; ref_phrase(&base, 0, 0, in->str, 0);
        in = &IN[NIN++]; snprintf(in->name, sizeof in->name, "decode%s(empty)", k == 2 ? "_explicit" : ""); in->kind = k; in->str[0] = 0;
        /* a phrase of 4-letter prefixes recognised by several languages (Spanish test vector of the upstream suite) */
        in = &IN[NIN++]; snprintf(in->name, sizeof in->name, "decode%s(multi-language)", k == 2 ? "_explicit" : ""); in->kind = k; in->li = 3; strcpy(in->str, "impo sort usua cabi venu nobl oliv clim cont barr marc auto prod vaca torn fati");
    }
    if (a < argc && !strcmp(argv[a], "case")) {
        int i = atoi(argv[a + 1]); run(&IN[i], atoi(argv[a + 2]), atol(argv[a + 3]), atoi(argv[a + 4]), r); fill_differential(&IN[i], atoi(argv[a + 2]), r);
        printf("%s\n", IN[i].name); for (int j = 0; j < r->nviol; j++) printf("REPRODUCED %s: %s\n", r->v[j].key, r->v[j].msg); return r->nviol ? 1 : 0;
    }
    for (int i = 0; i < NIN; i++) for (unsigned mask = 0; mask < 8; mask += (mask == 0 ? 5 : 2)) for (int na = 0; na < 2; na++) {
        run(&IN[i], mask, -1, na, r); long n = LAST_REQUESTS; if (n > MAX_REQUESTS) MAX_REQUESTS = n;
        for (long fail = 0; fail <= n; fail++) run(&IN[i], mask, fail, na, r);      /* every request of the call made to fail, and one beyond (never reached) */
    }
    for (int i = 0; i < NIN; i++) fill_differential(&IN[i], 7, r);
    encode_under_faults(r);
    crypt_under_faults(r);
    /* the remaining calls (keygen, store, getters, free) with a refusing allocator: same results as without */
    { rseed base; memset(&base, 0, sizeof base); for (int i = 0; i < 19; i++) base.secret[i] = (uint8_t)(0x21 + 5 * i); base.secret[18] &= 0x3F; base.birthday = 500; base.features = 16 | 4;
      polyseed_data *s = seed_from_ref(&base); obs o0, o1; observe(s, 99, &o0); env_clear_log(); E.fail_at = 0; observe(s, 99, &o1); long asked = E.alloc_seq; E.fail_at = -1; r->cases++; r->calls += 30;
      if (!obs_eq(&o0, &o1)) res_viol(r, "c15:queries-under-fault", "", "store / getters / keygen / encode give different results when the allocator refuses (requests made: %ld)", asked); else r->validated++;
      E.fail_at = 0; polyseed_free(s); E.fail_at = -1; if (ledger_live()) { res_viol(r, "c15:free-under-fault", "", "polyseed_free with a refusing allocator left the block allocated"); ledger_drop_all(); } }
    int triples = 0; for (int k = 0; k < 4; k++) for (int s = 0; s < 8; s++) for (int f = 0; f < 3; f++) triples += seen[k][s][f];
    res_sample(r, "%d inputs (one per entry point x outcome class) x masks {0,5,7} x fail_at {none,0,1} x {injected, libc} allocator; e.g. \"%s\"", NIN, IN[NIN - 1].name);
    out_begin(); out_part("entry points x outcome classes x failing allocation request", r, CLS, ""); out_kv_int("fault_distinct_triples", triples); out_kv_int("fault_inputs", NIN); out_kv_int("max_allocation_requests_per_call", MAX_REQUESTS); out_end();
    return 0;
}
