/* E2 family "phrase": exhaustive factor-wise enumeration of seeds x languages x coins x masks.
 * Oracles: c01 (encode->decode identity, auto-detection clause), c03 (byte equality with the
 * reference phrase + check value + purity).  Every case runs the real API. */
#include "h.h"

enum { K_OK, K_MULT, K_UNSUPP_EXPECTED, K_N };
static const char *CLS[] = { "roundtrip_ok_auto_ok", "roundtrip_ok_auto_multlang", "reserved_bit_refused", NULL };

static int ORACLE;            /* 1 = c01, 3 = c03 */
static int THREADPART;        /* part t: the replay sub-command is "tcase" (both passes are run again) */
static int NL;

struct kase { rseed r; int li; unsigned coin; unsigned mask; };

static void kase_str(const struct kase *k, char *out) {
    char h[40]; hex(k->r.secret, 19, h);
    sprintf(out, "%s %s %s %u %u %d %u %u", THREADPART ? "tcase" : "case", ORACLE == 1 ? "c01" : "c03", h, k->r.birthday, k->r.features, k->li, k->coin, k->mask);
}

/* returns 0 if fine; records a violation otherwise */
static int run_case(const struct kase *k, struct res *r, int verbose) {
    char rep[200]; kase_str(k, rep);
    extern char *G_cur; if (G_cur) strcpy(G_cur, rep);
    char key[160];
    const rlang *L = &RL[k->li];
    const polyseed_lang *lang = polyseed_get_lang(k->li);
    /* the enabling argument may carry higher bits; only the three low ones count */
    polyseed_enable_features(k->mask | ((k->coin & 1) ? 0xFFFFFFF8u : (k->coin & 2) ? 0x10u : 0u));
    r->cases++;
    uint64_t dg = mix64(k->li * 4096 + k->coin, k->mask);
#define FAIL(kind, ...) do { snprintf(key, sizeof key, "%s:%s:%s", ORACLE == 1 ? "c01" : "c03", kind, L->code); res_viol(r, key, rep, __VA_ARGS__); ledger_drop_all(); return 1; } while (0)
    uint8_t st[32]; ref_storage(&k->r, st);
    polyseed_data *s = NULL;
    int ls = polyseed_load(st, &s); r->calls++;
    if (!ref_supported(k->r.features, k->mask)) {
        /* seed the library cannot hold: the phrase of the reference model must be refused as unsupported */
        if (ls != POLYSEED_ERR_UNSUPPORTED) FAIL("load-reserved", "load of a seed with unsupported features returned %d", ls);
        char ph[2048]; ref_phrase(&k->r, k->li, k->coin, ph, 0);
        polyseed_data *d = NULL;
        int ds = polyseed_decode_explicit(ph, k->coin, lang, &d); r->calls++;
        if (ds != POLYSEED_ERR_UNSUPPORTED) FAIL("decode-reserved", "decode_explicit of a phrase with unsupported features returned %d", ds);
        if (ledger_live()) FAIL("leak", "block left allocated after refused decode");
        r->cls[K_UNSUPP_EXPECTED]++; r->validated++;
        r->digest ^= mix64(dg, 4);
        return 0;
    }
    if (ls != POLYSEED_OK) FAIL("load", "load of reference serialisation returned %d", ls);
    /* encode into a buffer with a canary right behind it */
    struct { polyseed_str out; uint8_t canary[64]; } b;
    memset(&b, 0x5C, sizeof b);
    size_t n = polyseed_encode(s, lang, k->coin, b.out); r->calls++;
    for (size_t i = 0; i < sizeof b.canary; i++) if (b.canary[i] != 0x5C) FAIL("overrun", "encode wrote past the caller's buffer");
    if (n >= PSTR || b.out[n] != 0 || strlen(b.out) != n) FAIL("length", "encode returned %zu but strlen is %zu", n, strnlen(b.out, PSTR));
    for (size_t i = 0; i < n; i++) dg = mix64(dg, (uint8_t)b.out[i]);
    char refph[2048]; size_t rn = ref_phrase(&k->r, k->li, k->coin, refph, 0);
    /* the same object written for another coin in another language, then for this coin again: a phrase is a function of (seed, language, coin),
     * not of what the object was asked for before */
    { polyseed_str oc; unsigned c2 = ((unsigned)k->coin ^ 0x2A5u) & 2047u; int l2 = (k->li + 1) % NL; size_t no = polyseed_encode(s, polyseed_get_lang(l2), (polyseed_coin)c2, oc); r->calls++;
      char rp2[2048]; size_t rn2 = ref_phrase(&k->r, l2, c2, rp2, 0);
      if (no != rn2 || memcmp(oc, rp2, rn2 + 1)) FAIL("second-coin", "the same seed object encoded for a second coin (%u, language %s) writes \"%.120s\" instead of \"%.120s\"", c2, RL[l2].code, oc, rp2);
      size_t nb = polyseed_encode(s, lang, k->coin, oc); r->calls++;
      if (nb != n || memcmp(oc, b.out, n + 1)) FAIL("re-encode", "encoding the same object for the first coin again, after another coin, writes another phrase"); }
    if (ORACLE == 3) {
        if (rn != n || memcmp(refph, b.out, n)) FAIL("phrase", "phrase differs from the reference: got \"%.150s\" expected \"%.150s\"", b.out, refph);
        uint8_t st2[32]; polyseed_store(s, st2); r->calls++;
        if (memcmp(st2, st, 32)) FAIL("store", "store differs from reference serialisation (check value bytes %02x%02x expected %02x%02x)", st2[30], st2[31], st[30], st[31]);
        /* the phrase restores: a conforming phrase (the reference one, which equals what was emitted) is accepted by both decoders, and
         * the restored seed writes the same phrase and serialisation again (word 1 included - the check value travels with the seed) */
        { polyseed_data *d = NULL; int ds = polyseed_decode_explicit(refph, k->coin, lang, &d); r->calls++;
          if (ds != POLYSEED_OK) FAIL("restore", "the reference phrase is refused by decode_explicit with status %d (phrase \"%.120s\")", ds, refph);
          polyseed_str re; memset(re, 0x5C, sizeof re); size_t rn2 = polyseed_encode(d, lang, k->coin, re); r->calls++;
          uint8_t st3[32]; polyseed_store(d, st3); polyseed_free(d); r->calls += 2;
          if (rn2 != n || memcmp(re, refph, n + 1)) FAIL("restored-phrase", "a seed restored by decode_explicit writes a different phrase: \"%.150s\" instead of \"%.150s\"", re, refph);
          if (memcmp(st3, st, 32)) FAIL("restored-store", "a seed restored by decode_explicit serialises differently (check value bytes %02x%02x expected %02x%02x)", st3[30], st3[31], st[30], st[31]);
          d = NULL; int as = polyseed_decode(refph, k->coin, NULL, &d); r->calls++;
          if (as == POLYSEED_OK) { rn2 = polyseed_encode(d, lang, k->coin, re); polyseed_store(d, st3); polyseed_free(d); r->calls += 3; if (rn2 != n || memcmp(re, refph, n + 1) || memcmp(st3, st, 32)) FAIL("restored-auto", "a seed restored by decode (automatic detection) writes a different phrase or serialisation"); }
          else if (as != POLYSEED_ERR_MULT_LANG) FAIL("restore-auto", "the reference phrase is refused by decode with status %d", as); }
        /* purity: unrelated work on another seed, another mask, then encode again */
        polyseed_data *o = NULL;
        polyseed_enable_features(k->mask ^ 5);
        if (polyseed_create(0, &o) == POLYSEED_OK) {
            polyseed_str tmp; polyseed_encode(o, polyseed_get_lang((k->li + 3) % NL), k->coin ^ 0x155, tmp);
            polyseed_crypt(o, "x"); polyseed_free(o); r->calls += 4;
        }
        /* the password operation applied twice puts the very same seed back: same phrase, same serialisation (the check value included) */
        { uint8_t km[32]; memcpy(km, E.mask, 32); for (int i = 0; i < 32; i++) E.mask[i] = (uint8_t)(0x5B + 7 * i + (int)k->coin);
          polyseed_crypt(s, "pass"); polyseed_crypt(s, "pass"); memcpy(E.mask, km, 32); r->calls += 2;
          polyseed_str again2; size_t n4 = polyseed_encode(s, lang, k->coin, again2); uint8_t st4[32]; polyseed_store(s, st4); r->calls += 2;
          if (n4 != n || memcmp(again2, b.out, n + 1) || memcmp(st4, st, 32)) FAIL("purity-crypt", "after the password operation was applied twice the seed writes a different phrase or serialisation (check value bytes %02x%02x expected %02x%02x)", st4[30], st4[31], st[30], st[31]); }
        /* encode again while the enabled mask is different (narrowed to nothing, then widened): the phrase is a function of the seed only */
        polyseed_str again; polyseed_enable_features(0); size_t n2 = polyseed_encode(s, lang, k->coin, again); r->calls++;
        if (n2 == n && !memcmp(again, b.out, n + 1)) { polyseed_enable_features(7); n2 = polyseed_encode(s, lang, k->coin, again); r->calls++; }
        polyseed_enable_features(k->mask);
        if (n2 != n || memcmp(again, b.out, n + 1)) FAIL("purity", "second encode of the same seed differs");
        /* nor may it depend on the allocator: every allocation request fails during this encode */
        { long keep = E.fail_at; E.fail_at = E.alloc_seq; size_t n3 = polyseed_encode(s, lang, k->coin, again); r->calls++; long asked = E.alloc_seq; E.fail_at = keep; (void)asked;
          if (n3 != n || memcmp(again, b.out, n + 1)) FAIL("purity-allocator", "encode under a failing allocator produced a different phrase"); }
        polyseed_free(s);
        if (ledger_live()) FAIL("leak", "blocks left allocated");
        r->cls[K_OK]++; r->validated++; r->digest ^= dg;
        return 0;
    }
    /* ORACLE c01 */
    if ((k->coin & 15) == 5) { inject(0); }      /* injecting the same dependencies again leaves the enabled mask alone */
    obs o0, o1, o2; char why[300];
    observe(s, k->coin, &o0); r->calls += 13;
    if (!obs_matches_ref(&o0, &k->r, k->coin, why, sizeof why)) FAIL("source", "loaded seed does not present the reference data: %s", why);
    polyseed_data *d = NULL;
    /* the caller's phrase sits in a heap block of exactly its own size (a reader that assumes a full phrase buffer behind the pointer shows under ASan) */
    char *tight = malloc(n + 1); memcpy(tight, b.out, n + 1);
    int ds = polyseed_decode_explicit(tight, k->coin, lang, &d); r->calls++; free(tight);
    if (ds != POLYSEED_OK) FAIL("explicit-status", "decode_explicit of the encoded phrase returned %d (phrase \"%.120s\")", ds, b.out);
    observe(d, k->coin, &o1); r->calls += 13;
    if (!obs_eq(&o0, &o1)) { obs_matches_ref(&o1, &k->r, k->coin, why, sizeof why); FAIL("explicit-seed", "decoded seed differs from the encoded one: %s", why); }
    polyseed_free(d); d = NULL;
    /* an explicit decode of the same phrase in another language (the sister list for Chinese) right before must not tilt what follows */
    { int other = k->li == 8 ? 9 : k->li == 9 ? 8 : (k->li + 1) % NL; polyseed_data *dx = NULL; if (polyseed_decode_explicit(b.out, k->coin, polyseed_get_lang(other), &dx) == POLYSEED_OK) polyseed_free(dx); r->calls++; }
    const polyseed_lang *lo = NULL;
    int as = polyseed_decode(b.out, k->coin, &lo, &d); r->calls++;
    dg = mix64(dg, as);
    if (as == POLYSEED_OK) {
        if (lo != lang) FAIL("auto-lang", "auto-detection reported language %d instead of %d", lang_index(lo), k->li);
        observe(d, k->coin, &o2); r->calls += 13;
        if (!obs_eq(&o0, &o2)) FAIL("auto-seed", "auto-decoded seed differs from the encoded one");
        polyseed_free(d);
        r->cls[K_OK]++;
    } else if (as == POLYSEED_ERR_MULT_LANG) {
        unsigned which = 0; int cnt = ref_count_langs(b.out, CAP, &which);
        if (cnt < 2) FAIL("auto-mult", "auto-detection says multiple languages but the reference recogniser finds %d (mask %x)", cnt, which);
        r->cls[K_MULT]++;
    } else FAIL("auto-status", "auto decode returned %d", as);
    polyseed_free(s);
    if (ledger_live() || E.err_foreign_free || E.err_free_dirty) FAIL("leak", "ledger not clean: live=%d foreign=%d dirty=%d", ledger_live(), E.err_foreign_free, E.err_free_dirty);
    r->validated++; r->digest ^= dg;
    if (verbose) printf("ok: %s -> \"%s\"\n", rep, b.out);
    return 0;
#undef FAIL
}

/* ------------------------------------------------------------------ backgrounds */
#define MAXBG 8
static rseed BG[R_NLANG][MAXBG]; static int NBG; static const char *BGNAME[MAXBG];
static void make_backgrounds(void) {
    uint64_t ps = 0x5eed0000 + (uint64_t)G_seed;
    int n = 0;
    for (int li = 0; li < R_NLANG; li++) { memset(&BG[li][0], 0, sizeof(rseed)); }
    BGNAME[n++] = "zeros";
    for (int li = 0; li < R_NLANG; li++) { rseed *b = &BG[li][n]; memset(b->secret, 0xFF, 19); b->secret[18] = 0x3F; b->birthday = 1023; b->features = 16 | 7; }
    BGNAME[n++] = "ones";
    /* per-language worst case: the longest decomposed admissible word in every data position */
    for (int li = 0; li < R_NLANG; li++) {
        unsigned c[16] = {0};
        for (int p = 1; p < 16; p++) {
            size_t best = 0; unsigned bi = 0;
            for (unsigned i = 0; i < R_NW; i++) {
                if (p == 2 && (i & 1)) continue;           /* reserved feature bit */
                if (RL[li].wlen[i] > best) { best = RL[li].wlen[i]; bi = i; }
            }
            c[p] = bi;
        }
        ref_from_coeffs(c, &BG[li][n]);
    }
    BGNAME[n++] = "longest-words";
    if (G_thorough) {
        for (int li = 0; li < R_NLANG; li++) { rseed *b = &BG[li][n]; for (int i = 0; i < 19; i++) b->secret[i] = (i & 1) ? 0x55 : 0xAA; b->secret[18] &= 0x3F; b->birthday = 0x2AA; b->features = 5; }
        BGNAME[n++] = "alternating";
        for (int k = 0; k < 2; k++) {
            rseed t; for (int i = 0; i < 19; i++) t.secret[i] = (uint8_t)prng(&ps); t.secret[18] &= 0x3F; t.birthday = prng(&ps) & 1023; t.features = prng(&ps) & 23;
            for (int li = 0; li < R_NLANG; li++) BG[li][n] = t;
            BGNAME[n++] = k ? "random-b" : "random-a";
        }
    }
    NBG = n;
}

/* ------------------------------------------------------------------ part a: word sweep */
static void work_a(long lo, long hi, struct res *r, void *arg) {
    (void)arg;
    for (long x = lo; x < hi; x++) {
        if ((x & 255) == 0 && past_deadline()) { r->timed_out = 1; return; }
        long y = x;
        unsigned idx = y % R_NW; y /= R_NW;
        int p = 1 + (int)(y % 15); y /= 15;
        int li = (int)(y % R_NLANG); y /= R_NLANG;
        int bg = (int)y;
        unsigned c[16]; ref_coeffs(&BG[li][bg], c);
        struct kase k; k.li = li; k.mask = 7;
        /* the word at position p is c[p] (xor coin for p = 1): choose coin 0, except for the
         * "ones" background where a coin is mixed in so that word 2 still sweeps all indices */
        k.coin = (bg == 1) ? 0x2B5 : 0;
        c[p] = (p == 1) ? (idx ^ k.coin) : idx;
        ref_from_coeffs(c, &k.r);
        if (run_case(&k, r, 0) == 0 && r->nsample < 1 && idx == 77 && p == 7) res_sample(r, "word-sweep bg=%s lang=%s pos=%d idx=%u", BGNAME[bg], RL[li].code, p, idx);
    }
}
/* part b: 1-bit and 2-bit seeds */
static void bitseed(int b, rseed *s) { /* 0..149 secret bits (msb first), 150..159 birthday, 160..164 features */
    if (b < 150) { if (b < 144) s->secret[b / 8] |= 0x80 >> (b % 8); else s->secret[18] |= 0x20 >> (b - 144); }
    else if (b < 160) s->birthday |= 1u << (b - 150);
    else s->features |= 1u << (b - 160);
}
static void work_b(long lo, long hi, struct res *r, void *arg) {
    (void)arg;
    for (long x = lo; x < hi; x++) {
        if ((x & 255) == 0 && past_deadline()) { r->timed_out = 1; return; }
        int li = (int)(x % R_NLANG); long y = x / R_NLANG;
        int i = (int)(y / 166), j = (int)(y % 166);   /* j = 165 means "no second bit" */
        if (j <= i && j != 165) continue;
        if (i >= 165) continue;
        struct kase k; memset(&k, 0, sizeof k); k.li = li; k.mask = 7; k.coin = 0;
        bitseed(i, &k.r); if (j < 165) bitseed(j, &k.r);
        if (run_case(&k, r, 0) == 0 && r->nsample < 1 && i == 9 && j == 160) res_sample(r, "2-bit seed bits %d,%d lang=%s", i, j, RL[li].code);
    }
}
/* part c: all coins */
static void work_c(long lo, long hi, struct res *r, void *arg) {
    (void)arg;
    for (long x = lo; x < hi; x++) {
        if ((x & 255) == 0 && past_deadline()) { r->timed_out = 1; return; }
        struct kase k; k.coin = (unsigned)(x % 2048); long y = x / 2048;
        k.li = (int)(y % R_NLANG); y /= R_NLANG;
        k.r = BG[k.li][y % NBG]; k.mask = 7;
        if (run_case(&k, r, 0) == 0 && r->nsample < 1 && k.coin == 2047) res_sample(r, "coin sweep coin=%u lang=%s bg=%s", k.coin, RL[k.li].code, BGNAME[y % NBG]);
    }
}
/* part d: birthdays x features x masks */
static void work_d(long lo, long hi, struct res *r, void *arg) {
    (void)arg;
    for (long x = lo; x < hi; x++) {
        if ((x & 255) == 0 && past_deadline()) { r->timed_out = 1; return; }
        long y = x;
        unsigned bd = y % 1024; y /= 1024;
        unsigned f = y % 32; y /= 32;
        unsigned m = y % 8; y /= 8;
        int li = (int)(y % R_NLANG); y /= R_NLANG;
        int sec = (int)y;
        if (f & 8) continue;                       /* reserved bit 3 is covered by the word sweep (position 2, odd) */
        if (!ref_supported(f, m) && (bd & 63) != 21) continue;   /* unsupported combinations: a 1/64 slice is enough here (C10 owns them) */
        struct kase k; k.li = li; k.mask = m; k.coin = (bd * 7 + f) & 2047;
        k.r = BG[li][sec ? 2 : 0]; k.r.birthday = bd; k.r.features = f;
        if (sec) { k.r.secret[0] ^= (uint8_t)bd; k.r.secret[17] ^= (uint8_t)(f * 9); }
        if (run_case(&k, r, 0) == 0 && r->nsample < 1 && bd == 1000 && f == 21) res_sample(r, "birthday=%u features=%u mask=%u lang=%s", bd, f, m, RL[li].code);
    }
}
/* part f (thorough): all 2048 x 2048 value pairs of adjacent data words (p, p+1), p = 1..14: covers every
 * carry of the 10+1-bit packing across byte boundaries completely; languages rotate with p */
static void work_f(long lo, long hi, struct res *r, void *arg) {
    (void)arg;
    for (long x = lo; x < hi; x++) {
        if ((x & 255) == 0 && past_deadline()) { r->timed_out = 1; return; }
        unsigned b = (unsigned)(x % 2048), a = (unsigned)((x / 2048) % 2048); int p = 1 + (int)(x / (2048L * 2048));
        unsigned c[16] = {0}; c[p] = a; c[p + 1] = b;
        struct kase k; k.li = (p * 3) % R_NLANG; k.mask = 7; k.coin = 0;
        ref_from_coeffs(c, &k.r);
        if (run_case(&k, r, 0) == 0 && r->nsample < 1 && a == 1365 && b == 682) res_sample(r, "adjacent words %d,%d = (%u,%u) lang=%s", p + 1, p + 2, a, b, RL[k.li].code);
    }
}
/* part e: seeds that come out of polyseed_create and polyseed_crypt instead of load */
static void work_e(long lo, long hi, struct res *r, void *arg) {
    (void)arg;
    for (long x = lo; x < hi; x++) {
        if (past_deadline()) { r->timed_out = 1; return; }
        uint64_t ps = 0xC0FFEE + (uint64_t)x * 977 + (uint64_t)G_seed;
        int li = (int)(x % R_NLANG);
        for (int i = 0; i < 32; i++) { E.tape[0][i] = (uint8_t)prng(&ps); E.mask[i] = (uint8_t)prng(&ps); }
        E.clock[0] = R_EPOCH + (prng(&ps) % 1024) * R_STEP + 17;
        if ((x & 7) == 3) E.clock[0] = R_EPOCH + (1024 + prng(&ps) % 3000) * R_STEP + 99;      /* after the documented range: only the month index wraps */
        if ((x & 63) == 5) E.clock[0] = (x & 64) ? UINT64_MAX : 1000 + (uint64_t)x;              /* error value / before the epoch */
        unsigned f = (unsigned)(prng(&ps) & 7);
        static const unsigned HIGHARG[8] = { 0, 0xFFFFFF00u, 0x8, 0x10, 0x20, 0x40, 0xFFFFFFF8u, 0x80000018u };
        unsigned farg = f | HIGHARG[(x >> 4) & 7];                                            /* argument bits above the three feature bits do not count */
        polyseed_enable_features(7);
        polyseed_data *s = NULL;
        if (polyseed_create(farg, &s) != POLYSEED_OK) { res_viol(r, "c01:create", "", "create failed"); continue; }
        /* what the model says this seed is, from the inputs alone */
        struct kase k; memset(&k.r, 0, sizeof k.r); memcpy(k.r.secret, E.tape[0], 19); k.r.secret[18] &= 0x3F; k.r.birthday = ref_birthday_index(E.clock[0]); k.r.features = f;
        if (x & 1) { polyseed_crypt(s, "pass\xC3\xA9"); ref_crypt(&k.r, E.mask); }
        /* the created object itself (not a reloaded copy): what it presents, the phrase it writes, and that phrase read back */
        { obs oc; char why[300]; unsigned c2 = (unsigned)(x * 131) & 2047; observe(s, c2, &oc); r->calls += 13;
          if (!obs_matches_ref(&oc, &k.r, c2, why, sizeof why) && !((x & 1))) { char rep[200], h[70]; hex(E.tape[0], 19, h); snprintf(rep, sizeof rep, "created %s %llu %u", h, (unsigned long long)E.clock[0], farg); res_viol(r, ORACLE == 1 ? "c01:created-object" : "c03:created-object", rep, "the seed object returned by create(%#x) does not present the model seed (random bytes, month index, three feature bits): %s", farg, why); polyseed_free(s); continue; }
          if (!(x & 1)) { polyseed_str ph; size_t n = polyseed_encode(s, polyseed_get_lang(li), (polyseed_coin)c2, ph); char refph[2048]; size_t rn = ref_phrase(&k.r, li, c2, refph, 0); r->calls++;
            if (n != rn || memcmp(ph, refph, rn + 1)) { res_viol(r, ORACLE == 1 ? "c01:created-phrase" : "c03:created-phrase", "", "the phrase written for a seed made by create(%#x) differs from the reference phrase of (random bytes, month index, three feature bits)", farg); polyseed_free(s); continue; }
            polyseed_data *d = NULL; int ds = polyseed_decode_explicit(ph, (polyseed_coin)c2, polyseed_get_lang(li), &d); r->calls++;
            if (ds != POLYSEED_OK) { res_viol(r, ORACLE == 1 ? "c01:created-decode" : "c03:created-decode", "", "the phrase of a seed made by create(%#x) is refused by decode_explicit (%s) with status %d", farg, RL[li].code, ds); polyseed_free(s); continue; }
            obs od; observe(d, c2, &od); polyseed_free(d); r->calls += 14; if (!obs_eq(&oc, &od)) { res_viol(r, ORACLE == 1 ? "c01:created-roundtrip" : "c03:created-roundtrip", "", "a seed made by create(%#x) and the seed decoded from its phrase differ (serialisation, getters or KDF inputs)", farg); polyseed_free(s); continue; } } }
        uint8_t st[32], exp[32]; polyseed_store(s, st); polyseed_free(s); r->calls += 4; ref_storage(&k.r, exp);
        if (memcmp(st, exp, 32)) { char rep[200], h[70]; hex(E.tape[0], 19, h); snprintf(rep, sizeof rep, "created %s %llu %u", h, (unsigned long long)E.clock[0], farg); res_viol(r, ORACLE == 1 ? "c01:created-seed" : "c03:created-seed", "", "seed made by create(%#x)%s with clock %llu does not serialise to the model seed (random bytes, month index, three feature bits)", farg, (x & 1) ? "+crypt" : "", (unsigned long long)E.clock[0]); continue; }
        k.li = li; k.mask = 7; k.coin = (unsigned)(prng(&ps) & 2047);
        if (run_case(&k, r, 0) == 0 && r->nsample < 1) res_sample(r, "created%s seed lang=%s coin=%u", (x & 1) ? "+crypt" : "", RL[li].code, k.coin);
    }
}

/* part g: exact extremal phrases: every word, the check word included, among the longest admissible words of its position (composed and
 * decomposed length separately) - the phrases that fill the phrase buffer furthest; found by enumerating combinations of longest data
 * words until the resulting check word is itself a longest word */
static void extremal(struct res *r) {
    int found_total = 0;
    for (int li = 0; li < R_NLANG; li++) for (int form = 0; form < 2; form++) for (unsigned mask = 7; mask <= 7; mask++) {
        const size_t *len = form ? RL[li].wlen : RL[li].wnfclen;
        static unsigned SET[16][R_NW]; int ns[16]; size_t mx[16];
        for (int p = 0; p < 16; p++) { mx[p] = 0; ns[p] = 0;
            for (unsigned i = 0; i < R_NW; i++) { if (p == 2 && (i & 1)) continue; if (len[i] > mx[p]) mx[p] = len[i]; }
            for (unsigned i = 0; i < R_NW; i++) { if (p == 2 && (i & 1)) continue; if (len[i] == mx[p]) SET[p][ns[p]++] = i; } }
        double combos = 1; for (int p = 1; p < 16; p++) { combos *= ns[p]; if (combos > 1e9) combos = 1e9; }
        long tries = combos < 300000 ? (long)combos : 300000; int found = 0; uint64_t ps = 0xE7 + (uint64_t)li * 17 + (uint64_t)form;
        for (long attempt = 0; attempt < tries && found < 3; attempt++) {
            unsigned c[16];
            if (combos < 300000) { long y = attempt; for (int p = 1; p < 16; p++) { c[p] = SET[p][y % ns[p]]; y /= ns[p]; } }
            else for (int p = 1; p < 16; p++) c[p] = SET[p][prng(&ps) % (unsigned)ns[p]];
            c[0] = 0; unsigned c0 = ref_eval(c);
            if (len[c0] != mx[0]) continue;
            found++; found_total++;
            struct kase k; k.li = li; k.mask = 7; k.coin = 0; ref_from_coeffs(c, &k.r);
            if (run_case(&k, r, 0) == 0 && r->nsample < 2 && li == 2) res_sample(r, "exact extremal %s phrase (%s length maximal in all 16 positions)", RL[li].code, form ? "decomposed" : "composed");
        }
    }
    res_sample(r, "%d exact extremal phrases over 10 languages x {composed, decomposed}", found_total);
}

/* part h: what an object wrote before does not matter.  encode, then the password operation in place under every mask of a 2^16 family
 * (mask bytes 0 and 1 swept, i.e. data words 1-2), then encode again: the second phrase is the reference phrase of the model's
 * new seed.  About one mask in 2048 leaves the check value (word 1) as it was while the secret changed - the case in which anything
 * remembered from the first encode and keyed by (object, check value) would be stale; the count of those masks is reported. */
static const char *CLS_H[] = { "check_value_changed_by_the_password_operation", "check_value_unchanged_while_the_seed_changed", NULL };
static int hist_one(long x, struct res *r) {
    char rep[64]; snprintf(rep, sizeof rep, "hist %ld", x);
    extern char *G_cur; if (G_cur) strcpy(G_cur, rep);
    int v = (int)(x >> 16) & 1, li = (int)((x >> 3) % R_NLANG); unsigned coin = (unsigned)(x >> 5) & 2047u;
    rseed m; memset(&m, 0, sizeof m); for (int i = 0; i < 19; i++) m.secret[i] = (uint8_t)(0xA7 + 29 * i + v); m.secret[18] &= 0x3F; m.birthday = 300 + (unsigned)v; m.features = v ? (16u | 2u) : 5u;
    polyseed_enable_features(7); r->cases++;
    uint8_t st[32], km[32]; ref_storage(&m, st); polyseed_data *s = NULL;
    if (polyseed_load(st, &s) != POLYSEED_OK) { res_viol(r, "c03:history:load", rep, "load of the reference serialisation failed"); ledger_drop_all(); return 1; }
    const polyseed_lang *lang = polyseed_get_lang(li);
    polyseed_str p0, p1; char ref0[2048], ref1[2048];
    size_t n0 = polyseed_encode(s, lang, (polyseed_coin)coin, p0), r0 = ref_phrase(&m, li, coin, ref0, 0);
    unsigned cv0 = ref_check_value(&m);
    memcpy(km, E.mask, 32); for (int i = 2; i < 32; i++) E.mask[i] = (uint8_t)(0x3D + 11 * i); E.mask[0] = (uint8_t)x; E.mask[1] = (uint8_t)(x >> 8);
    polyseed_crypt(s, "pw"); ref_crypt(&m, E.mask); memcpy(E.mask, km, 32);
    size_t n1 = polyseed_encode(s, lang, (polyseed_coin)coin, p1), r1 = ref_phrase(&m, li, coin, ref1, 0);
    uint8_t st1[32], ex1[32]; polyseed_store(s, st1); ref_storage(&m, ex1); polyseed_free(s); r->calls += 6;
    int same_cv = ref_check_value(&m) == cv0;
    if (n0 != r0 || memcmp(p0, ref0, r0 + 1)) { res_viol(r, "c03:history:first", rep, "first phrase differs from the reference phrase"); ledger_drop_all(); return 1; }
    if (memcmp(st1, ex1, 32)) { res_viol(r, "c03:history:store", rep, "after the password operation the object serialises differently from the model seed"); ledger_drop_all(); return 1; }
    if (n1 != r1 || memcmp(p1, ref1, r1 + 1)) { res_viol(r, "c03:history:second", rep, "an object that was encoded, then changed in place by the password operation (check value %s), writes \"%.100s\" instead of the reference phrase \"%.100s\" of its new content%s", same_cv ? "unchanged" : "changed", p1, ref1, (n1 == n0 && !memcmp(p1, p0, n0)) ? " - it repeats the phrase written before the change" : ""); ledger_drop_all(); return 1; }
    if (ledger_live()) { res_viol(r, "c03:history:leak", rep, "blocks left allocated"); ledger_drop_all(); return 1; }
    r->cls[same_cv ? 1 : 0]++; r->validated++; r->digest ^= mix64((uint64_t)x, n1);
    return 0;
}
static void work_h(long lo, long hi, struct res *r, void *arg) {
    (void)arg;
    for (long x = lo; x < hi; x++) { if (past_deadline()) { r->timed_out = 1; return; } hist_one(x, r); }
}

/* part t: the same round trips on the main thread and then, after it is done, on a second thread (started and joined: no
 * interleaving, this is not C20).  What the library prepared lazily on the first thread must serve the second one as well. */
#include <pthread.h>
struct targ { struct res *r; int pass; };
static void *thread_cases(void *a) {
    struct targ *t = a;
    for (int li = 0; li < R_NLANG; li++) for (int v = 0; v < 4; v++) {
        struct kase k; memset(&k.r, 0, sizeof k.r); for (int i = 0; i < 19; i++) k.r.secret[i] = (uint8_t)(0x31 + 37 * i + 11 * v + li); k.r.secret[18] &= 0x3F;
        k.r.birthday = 100 + 200 * (unsigned)v; k.r.features = (v & 1) ? 16u | (unsigned)v : (unsigned)v; k.li = li; k.coin = (unsigned)(v * 683 + t->pass) & 2047u; k.mask = 7;
        run_case(&k, t->r, 0);
    }
    return NULL;
}

int main(int argc, char **argv) {
    int a = common_args(argc, argv);
    ref_init(VERIF_ROOT); sec_mark_initial(); env_init(); inject(0);
    NL = polyseed_get_num_langs();
    if (a < argc && !strcmp(argv[a], "case")) {
        /* case <oracle> <secret-hex> <birthday> <features> <lang> <coin> <mask> */
        if (argc - a < 8) { fprintf(stderr, "usage\n"); return 2; }
        ORACLE = !strcmp(argv[a + 1], "c01") ? 1 : 3;
        struct kase k; parse_rseed(argv[a + 2], atoi(argv[a + 3]), atoi(argv[a + 4]), &k.r);
        k.li = atoi(argv[a + 5]); k.coin = atoi(argv[a + 6]); k.mask = atoi(argv[a + 7]);
        struct res *r = calloc(1, sizeof *r);
        int bad = run_case(&k, r, 1);
        for (int i = 0; i < r->nviol; i++) printf("REPRODUCED %s: %s\n", r->v[i].key, r->v[i].msg);
        return bad ? 1 : 0;
    }
    if (a < argc && !strcmp(argv[a], "tcase")) {
        /* tcase <oracle> ...: part t again - the main-thread pass, then the pass on a second thread */
        ORACLE = (argc - a >= 2 && !strcmp(argv[a + 1], "c03")) ? 3 : 1; THREADPART = 1;
        struct res *r = calloc(1, sizeof *r); struct targ t0 = { r, 0 }, t1 = { r, 1 }; thread_cases(&t0);
        pthread_t th; if (pthread_create(&th, NULL, thread_cases, &t1) == 0) pthread_join(th, NULL);
        for (int i = 0; i < r->nviol; i++) printf("REPRODUCED %s: %s\n", r->v[i].key, r->v[i].msg);
        return r->nviol ? 1 : 0;
    }
    if (a < argc && !strcmp(argv[a], "hist")) {
        if (argc - a < 2) { fprintf(stderr, "usage\n"); return 2; }
        ORACLE = 3; struct res *r = calloc(1, sizeof *r);
        int bad = hist_one(atol(argv[a + 1]), r);
        for (int i = 0; i < r->nviol; i++) printf("REPRODUCED %s: %s\n", r->v[i].key, r->v[i].msg);
        return bad ? 1 : 0;
    }
    if (a >= argc) { fprintf(stderr, "usage: e2_phrase [opts] c01|c03 | case ... | hist <n>\n"); return 2; }
    ORACLE = !strcmp(argv[a], "c01") ? 1 : 3;
    if (NL != R_NLANG) { printf("{\"parts\":[],\"fatal\":\"language registry has %d entries, expected %d\"}\n", NL, R_NLANG); return 0; }
    make_backgrounds();
    out_begin();
    struct res *r = calloc(1, sizeof *r);
    par_run((long)NBG * R_NLANG * 15 * R_NW, work_a, NULL, r);
    out_part("a:word-sweep(lang x position x index x background)", r, CLS, "positions 1-15 swept directly; position 0 (check word) is a bijective image of position 15");
    memset(r, 0, sizeof *r); par_run(165L * 166 * R_NLANG, work_b, NULL, r);
    out_part("b:one-and-two-bit-seeds", r, CLS, "165 single bits and all 13530 pairs x 10 languages");
    memset(r, 0, sizeof *r); par_run(2048L * R_NLANG * NBG, work_c, NULL, r);
    out_part("c:all-coins", r, CLS, "2048 coins x 10 languages x backgrounds");
    memset(r, 0, sizeof *r); par_run(1024L * 32 * 8 * R_NLANG * (G_thorough ? 2 : 1), work_d, NULL, r);
    out_part("d:birthdays-x-features-x-masks", r, CLS, "1024 x supported feature values x 8 masks x 10 languages");
    memset(r, 0, sizeof *r); par_run(G_thorough ? 200000 : 20000, work_e, NULL, r);
    out_part("e:created-and-crypted-seeds", r, CLS, "seeds obtained through create/crypt with PRNG tapes (additional, not a decision factor)");
    if (G_thorough) { memset(r, 0, sizeof *r); par_run(14L * 2048 * 2048, work_f, NULL, r); out_part("f:all value pairs of adjacent data words", r, CLS, "14 word pairs x 2048 x 2048, languages rotating with the position"); }
    memset(r, 0, sizeof *r); extremal(r); out_part("g:exact extremal phrases (longest word in all 16 positions)", r, CLS, "the phrases that reach the computed maximum length to the byte");
    { memset(r, 0, sizeof *r); struct targ t0 = { r, 0 }, t1 = { r, 1 }; THREADPART = 1; thread_cases(&t0);
      pthread_t th; if (pthread_create(&th, NULL, thread_cases, &t1) == 0) pthread_join(th, NULL); else r->timed_out = 1;
      out_part("t:round trips on the main thread, then on a second thread started afterwards", r, CLS, "10 languages x 4 seeds per thread; sequential (thread joined), lazily prepared library state must serve both"); THREADPART = 0; }
    if (ORACLE == 3) { memset(r, 0, sizeof *r); par_run(2L * 65536, work_h, NULL, r);
        out_part("h:encode, password operation under every mask of a 2^16 family, encode again", r, CLS_H, "2 start seeds (plain, encrypted) x 65536 masks (mask bytes 0-1); languages and coins rotated"); }
    out_kv_int("backgrounds", NBG);
    out_end();
    return 0;
}
