/* E2 family "words" (C07): word lists frozen, distinct, self-decoding.
 * Words are obtained from the library (polyseed_encode output), never from its sources. */
#include "h.h"

static const char *CLS[] = { "word_equals_golden", "word_at_position_decodes_to_own_index", "pairs_compared", "nfkd_nfc_stable", NULL };
static char *EMIT[R_NLANG][R_NW];     /* as emitted */
static char *EKEY[R_NLANG][R_NW];     /* NFKD, non-ASCII stripped for accent languages */
static char *ENFKD[R_NLANG][R_NW];

static void strip(const char *s, char *o) { for (; *s; s++) if (!((uint8_t)*s & 0x80)) *o++ = *s; *o = 0; }

/* every word at every position */
static void work_pos(long lo, long hi, struct res *r, void *arg) {
    (void)arg;
    for (long x = lo; x < hi; x++) {
        if ((x & 255) == 0 && past_deadline()) { r->timed_out = 1; return; }
        unsigned idx = (unsigned)(x % R_NW); int p = (int)((x / R_NW) % 16); int li = (int)(x / (R_NW * 16));
        /* a checksum-valid index vector with idx at position p, built by the reference model */
        unsigned c[16]; for (int i = 1; i < 16; i++) c[i] = (unsigned)((idx * 7 + i * 131 + p) & 2046);   /* even: no feature/reserved bits by accident */
        if (p > 0) c[p] = idx;
        c[0] = 0; c[0] = ref_eval(c);
        if (p == 0) { /* choose c[15] so that the check word is idx: c0 = base ^ 2^15*c15 -> solve by search over the 2048 values */
            unsigned found = 0; int ok = 0;
            for (unsigned v = 0; v < 2048; v++) { c[15] = v; c[0] = 0; if (ref_eval(c) == idx) { found = v; ok = 1; break; } }
            c[15] = found; c[0] = idx; if (!ok) { res_viol(r, "c07:internal", "", "no c15 gives check word %u", idx); continue; }
        }
        rseed want; ref_from_coeffs(c, &want);
        char key[100], rep[2300];
        if (want.features & 8) {           /* position 2, odd index: the word must still be recognised -> UNSUPPORTED, not LANG */
            char ph[2048]; ref_phrase_from_idx(c, li, ph, 0);
            polyseed_data *d = NULL; int st = polyseed_decode_explicit(ph, 0, polyseed_get_lang(li), &d); r->calls++; r->cases++;
            if (st != POLYSEED_ERR_UNSUPPORTED) { snprintf(key, sizeof key, "c07:own-index:%s:%u", RL[li].code, idx); snprintf(rep, sizeof rep, "case %d 0 %s", li, ph); res_viol(r, key, rep, "word %u of %s at position %d: expected the unsupported-feature status, got %d", idx, RL[li].code, p + 1, st); if (st == 0) polyseed_free(d); }
            else { r->validated++; r->cls[1]++; }
            continue;
        }
        for (int form = 0; form <= 2; form += 2) {        /* composed output form and NFKD form */
            char ph[2048]; ref_phrase_from_idx(c, li, ph, form);
            polyseed_data *d = NULL; int st = polyseed_decode_explicit(ph, 0, polyseed_get_lang(li), &d); r->calls++; r->cases++;
            r->digest ^= mix64(x * 2 + form, st);
            uint8_t got[32], exp[32]; ref_storage(&want, exp); memset(got, 0, 32);
            if (st == POLYSEED_OK) { polyseed_store(d, got); polyseed_free(d); r->calls += 2; }
            if (st != POLYSEED_OK || memcmp(got, exp, 32)) {
                snprintf(key, sizeof key, "c07:own-index:%s:%u", RL[li].code, idx); snprintf(rep, sizeof rep, "case %d 0 %s", li, ph);
                res_viol(r, key, rep, "word %u (\"%s\") of %s at position %d does not decode to its own index (status %d)", idx, RL[li].w[idx], RL[li].code, p + 1, st);
            } else { r->validated++; r->cls[1]++; }
            /* the same through automatic detection (composed form): the word is recognised as its own index there too - the result is this
             * very seed in this language, or "multiple languages" when every token also exists in another list; never another seed or error */
            if (form == 0 && st == POLYSEED_OK) {
                const polyseed_lang *lo_ = NULL; d = NULL; int as = polyseed_decode(ph, 0, &lo_, &d); r->calls++; r->cases++;
                uint8_t ga[32]; memset(ga, 0, 32); if (as == POLYSEED_OK) { polyseed_store(d, ga); polyseed_free(d); r->calls += 2; }
                int okk = (as == POLYSEED_OK && !memcmp(ga, exp, 32) && lo_ == polyseed_get_lang(li));
                if (!okk && as == POLYSEED_ERR_MULT_LANG) { unsigned which = 0; okk = ref_count_langs(ph, CAP, &which) >= 2; }
                if (!okk) { snprintf(key, sizeof key, "c07:own-index-auto:%s:%u", RL[li].code, idx); snprintf(rep, sizeof rep, "auto %d 0 %s", li, ph);
                    res_viol(r, key, rep, "word %u (\"%s\") of %s at position %d: automatic detection gives status %d%s", idx, RL[li].w[idx], RL[li].code, p + 1, as, as == 0 ? (lo_ == polyseed_get_lang(li) ? " and a different seed" : " and another language") : ""); }
                else { r->validated++; r->cls[1]++; }
                /* the language output is optional: without it the verdict and the seed are the same */
                { polyseed_data *dn = NULL; int an = polyseed_decode(ph, 0, NULL, &dn); r->calls++; r->cases++;
                  uint8_t gn[32]; memset(gn, 0, 32); if (an == POLYSEED_OK) { polyseed_store(dn, gn); polyseed_free(dn); r->calls += 2; }
                  if (an != as || memcmp(gn, ga, 32)) { snprintf(key, sizeof key, "c07:own-index-auto-nolang:%s:%u", RL[li].code, idx); snprintf(rep, sizeof rep, "auto %d 0 %s", li, ph);
                      res_viol(r, key, rep, "word %u of %s at position %d: automatic detection without a language output gives status %d%s, with one status %d", idx, RL[li].code, p + 1, an, an == as ? " and another seed" : "", as); }
                  else { r->validated++; r->cls[1]++; } }
            }
        }
    }
    if (r->nsample < 1 && lo < hi) res_sample(r, "lang=%s: golden word #%ld placed at position %ld of a checksum-valid phrase decodes to a seed with exactly that index there", RL[lo / (R_NW * 16)].code, lo % R_NW, (lo / R_NW) % 16 + 1);
}

int main(int argc, char **argv) {
    int a = common_args(argc, argv);
    ref_init(VERIF_ROOT); sec_mark_initial(); env_init(); inject(0);
    polyseed_enable_features(7);
    struct res *r = calloc(1, sizeof *r);
    if (a + 3 < argc && !strcmp(argv[a], "auto")) {   /* auto <lang> <coin> <phrase...> : automatic detection against the explicit result */
        int li = atoi(argv[a + 1]); unsigned coin = atoi(argv[a + 2]);
        char ph[2048] = ""; for (int i = a + 3; i < argc; i++) { if (i > a + 3) strcat(ph, " "); strcat(ph, argv[i]); }
        polyseed_data *d = NULL, *e = NULL; const polyseed_lang *lo_ = NULL; int st = polyseed_decode_explicit(ph, coin, polyseed_get_lang(li), &d), as = polyseed_decode(ph, coin, &lo_, &e);
        uint8_t g1[32] = {0}, g2[32] = {0}; if (st == 0) polyseed_store(d, g1); if (as == 0) polyseed_store(e, g2);
        printf("decode_explicit -> %d, decode -> %d (language %d), same seed: %s\n", st, as, as == 0 ? lang_index(lo_) : -1, memcmp(g1, g2, 32) ? "no" : "yes");
        { polyseed_data *dn = NULL; int an = polyseed_decode(ph, coin, NULL, &dn); uint8_t g3[32] = {0}; if (an == 0) polyseed_store(dn, g3); printf("decode without a language output -> %d\n", an); if (an != as || memcmp(g3, g2, 32)) { printf("REPRODUCED\n"); return 1; } }
        unsigned which = 0; if (!(as == 0 && st == 0 && !memcmp(g1, g2, 32) && lo_ == polyseed_get_lang(li)) && !(as == POLYSEED_ERR_MULT_LANG && ref_count_langs(ph, CAP, &which) >= 2)) { printf("REPRODUCED\n"); return 1; }
        return 0;
    }
    if (a < argc && !strcmp(argv[a], "case")) {   /* case <lang> <coin> <phrase...> : decode and compare with the reference decoder */
        int li = atoi(argv[a + 1]); unsigned coin = atoi(argv[a + 2]);
        char ph[2048] = ""; for (int i = a + 3; i < argc; i++) { if (i > a + 3) strcat(ph, " "); strcat(ph, argv[i]); }
        polyseed_data *d = NULL; rseed want; int st = polyseed_decode_explicit(ph, coin, polyseed_get_lang(li), &d);
        int rs = ref_decode(ph, coin, li, 7, 0, CAP, &want, NULL);
        uint8_t got[32] = {0}, exp[32] = {0}; if (st == 0) polyseed_store(d, got); if (rs == 0) ref_storage(&want, exp);
        printf("decode_explicit -> %d, reference -> %d, same seed: %s\n", st, rs, memcmp(got, exp, 32) ? "no" : "yes");
        if (st != rs || memcmp(got, exp, 32)) { printf("REPRODUCED\n"); return 1; }
        return 0;
    }
    int NL = polyseed_get_num_langs();
    out_begin();
    /* ---- registry */
    if (NL != R_NLANG) res_viol(r, "c07:registry:count", "", "polyseed_get_num_langs() = %d, published: %d", NL, R_NLANG);
    r->cases++;
    for (int li = 0; li < NL && li < R_NLANG; li++) {
        const polyseed_lang *l = polyseed_get_lang(li); r->cases++; r->calls += 3;
        if (strcmp(polyseed_get_lang_name_en(l), RL[li].name_en) || strcmp(polyseed_get_lang_name(l), RL[li].name)) {
            char key[100]; snprintf(key, sizeof key, "c07:registry:%s", RL[li].code); res_viol(r, key, "", "language %d is \"%s\"/\"%s\", published \"%s\"/\"%s\"", li, polyseed_get_lang_name_en(l), polyseed_get_lang_name(l), RL[li].name_en, RL[li].name);
        } else r->validated++;
    }
    if (NL != R_NLANG) { out_part("registry", r, CLS, ""); out_end(); return 0; }
    /* ---- words as emitted by the library: index i at position 15 (and, for cross-checking the extraction, at position 7) */
    for (int li = 0; li < R_NLANG; li++) {
        const char *sep = RL[li].sep; size_t sl = strlen(sep);
        for (unsigned i = 0; i < R_NW; i++) {
            unsigned c[16] = {0}; c[15] = i; c[7] = i; rseed s; ref_from_coeffs(c, &s);
            polyseed_data *d = seed_via_create(&s); polyseed_str out; polyseed_encode(d, polyseed_get_lang(li), 0, out); polyseed_free(d); r->calls += 3;
            char *tok[20]; int n = 0; char *p = out; for (;;) { tok[n++] = p; char *q = strstr(p, sep); if (!q || n >= 20) break; *q = 0; p = q + sl; }
            r->cases++;
            char key[100];
            if (n != 16 || strcmp(tok[15], tok[7])) { snprintf(key, sizeof key, "c07:emit:%s:%u", RL[li].code, i); res_viol(r, key, "", "encode did not produce 16 words / same index gives different words at two positions"); EMIT[li][i] = strdup(""); }
            else EMIT[li][i] = strdup(tok[15]);
            char nf[300], st[300]; u_nfkd(EMIT[li][i], nf, sizeof nf - 1); ENFKD[li][i] = strdup(nf);
            if (RL[li].accents) { strip(nf, st); EKEY[li][i] = strdup(st); } else EKEY[li][i] = ENFKD[li][i];
            /* frozen: emitted word = NFC form (composing languages) or stored form of the published word; NFKD of it = published word */
            const char *expect = RL[li].compose ? RL[li].wnfc[i] : RL[li].w[i];
            if (strcmp(EMIT[li][i], expect) || strcmp(nf, RL[li].w[i])) {
                snprintf(key, sizeof key, "c07:frozen:%s:%u", RL[li].code, i);
                res_viol(r, key, "", "%s word %u is \"%s\", published \"%s\"", RL[li].name_en, i, EMIT[li][i], expect);
            } else { r->validated++; r->cls[0]++; }
            /* stable under NFC followed by NFKD */
            char c1[300], c2[300]; u_nfc(nf, c1, sizeof c1 - 1); u_nfkd(c1, c2, sizeof c2 - 1);
            if (strcmp(c2, nf)) { snprintf(key, sizeof key, "c07:unstable:%s:%u", RL[li].code, i); res_viol(r, key, "", "word %u of %s is not stable under NFC then NFKD", i, RL[li].code); } else r->cls[3]++;
            { uint64_t hh = 0; for (const char *q = EMIT[li][i]; *q; q++) hh = mix64(hh, (uint8_t)*q); r->digest ^= mix64(li * 2048 + i, hh); }
        }
        /* separator: a two-word... the separator the library emits must normalise to one ASCII space */
        {
            unsigned c[16] = {0}; rseed s; ref_from_coeffs(c, &s); polyseed_data *d = seed_via_create(&s); polyseed_str out; polyseed_encode(d, polyseed_get_lang(li), 0, out); polyseed_free(d);
            size_t wl = strlen(EMIT[li][0]); char sepbuf[16] = ""; const char *q = out + wl; const char *e = strstr(q + 1, EMIT[li][0]);
            if (e && (size_t)(e - q) < sizeof sepbuf) { memcpy(sepbuf, q, (size_t)(e - q)); sepbuf[e - q] = 0; }
            char nf[32]; u_nfkd(sepbuf, nf, sizeof nf - 1); r->cases++;
            if (strcmp(nf, " ") || strcmp(sepbuf, RL[li].sep)) { char key[64]; snprintf(key, sizeof key, "c07:separator:%s", RL[li].code); res_viol(r, key, "", "separator of %s is \"%s\" (NFKD \"%s\")", RL[li].code, sepbuf, nf); } else r->validated++;
        }
    }
    out_part("registry, every word of every language as emitted by encode vs golden lists", r, CLS, "golden lists: /verif/golden, sha256-pinned; English digest equals the published BIP-39 english.txt digest");
    /* ---- pairs */
    memset(r, 0, sizeof *r);
    for (int li = 0; li < R_NLANG; li++) {
        for (unsigned i = 0; i < R_NW; i++) for (unsigned j = i + 1; j < R_NW; j++) {
            r->cases++; r->cls[2]++;
            const char *A = EKEY[li][i], *B = EKEY[li][j];
            char key[160];
            if (!strcmp(ENFKD[li][i], ENFKD[li][j]) || !strcmp(A, B)) { snprintf(key, sizeof key, "c07:duplicate:%s:%u/%u", RL[li].code, i, j); res_viol(r, key, "", "words %u and %u of %s are equal%s", i, j, RL[li].code, strcmp(ENFKD[li][i], ENFKD[li][j]) ? " after accent stripping" : ""); continue; }
            if (RL[li].prefix) {
                size_t la = strlen(A), lb = strlen(B);
                if (la >= 4 && lb >= 4 && !strncmp(A, B, 4)) { snprintf(key, sizeof key, "c07:prefix4:%s:%s/%s", RL[li].code, A, B); res_viol(r, key, "", "\"%s\" and \"%s\" (%s) share their first four letters", A, B, RL[li].code); continue; }
                const char *S = la < lb ? A : B, *Lg = la < lb ? B : A; size_t ls = la < lb ? la : lb;
                if (!strncmp(S, Lg, ls)) {
                    snprintf(key, sizeof key, "c07:prefix-pair:%s:%s/%s", RL[li].code, S, Lg);
                    res_viol(r, key, "", "\"%s\" is a prefix of \"%s\" (%s)%s", S, Lg, RL[li].code, ls >= 4 ? " and has four or more letters: ambiguous abbreviation" : "; three letters, so not ambiguous under the four-letter rule");
                    continue;
                }
            }
            r->validated++;
        }
        /* order: what the sorted search needs - strictly increasing keys, under both byte signednesses */
        if (RL[li].sorted) for (unsigned i = 0; i + 1 < R_NW; i++) {
            const unsigned char *A = (const unsigned char *)EKEY[li][i], *B = (const unsigned char *)EKEY[li][i + 1];
            int cu = strcmp((const char *)A, (const char *)B);   /* strcmp compares as unsigned char */
            int cs = 0; for (size_t k = 0;; k++) { signed char x = (signed char)A[k], y = (signed char)B[k]; if (x != y) { cs = x < y ? -1 : 1; break; } if (!x) break; }
            r->cases++;
            if (!(cu < 0 && cs < 0)) { char key2[160]; snprintf(key2, sizeof key2, "c07:order:%s:%u", RL[li].code, i); res_viol(r, key2, "", "words %u and %u of %s are not strictly increasing (unsigned %d, signed %d)", i, i + 1, RL[li].code, cu, cs); }
            else r->validated++;
        }
    }
    res_sample(r, "all C(2048,2) pairs per language: equality, shared 4-letter accent-stripped prefix, prefix relation; adjacent order under signed and unsigned bytes");
    out_part("all pairs of words within each language", r, CLS, "the 79 three-letter prefix pairs of the frozen English and Spanish lists are known findings (KNOWN_FINDINGS.txt)");
    /* ---- every word at every position */
    memset(r, 0, sizeof *r);
    par_run((long)R_NLANG * 16 * R_NW, work_pos, NULL, r);
    out_part("every word at all 16 positions decodes to its own index (NFC and NFKD input)", r, CLS, "");
    out_end();
    return 0;
}
