/* Reference model of polyseed, written from README.md and include/polyseed.h
 * (not from the library sources).  Boring on purpose.  Everything the checks
 * call "the model" is in ref.c. */
#ifndef VERIF_REF_H
#define VERIF_REF_H
#include <stddef.h>
#include <stdint.h>

#define R_NLANG 10
#define R_NW 2048
#define R_EPOCH 1635768000ULL
#define R_STEP 2629746ULL

/* status codes as documented in polyseed.h */
enum { ST_OK = 0, ST_NUM_WORDS = 1, ST_LANG = 2, ST_CHECKSUM = 3, ST_UNSUPPORTED = 4,
       ST_FORMAT = 5, ST_MEMORY = 6, ST_MULT_LANG = 7 };

typedef struct rseed {
    uint8_t secret[19];   /* 150 bits: bytes 0..17 and the low 6 bits of byte 18 */
    unsigned birthday;    /* 0..1023 */
    unsigned features;    /* 5 bits: 16 = encrypted, 8 = reserved, 1|2|4 = user */
} rseed;

typedef struct rlang {
    char code[8];
    char name_en[40];
    char name[40];
    char sep[8];          /* separator as emitted (UTF-8) */
    int sorted, prefix, accents, compose;
    char *w[R_NW];        /* words as published (NFKD) */
    char *wnfc[R_NW];     /* NFC form (what encode emits for composing languages) */
    char *wkey[R_NW];     /* comparison key: non-ASCII bytes removed for accent languages, else = w */
    size_t wlen[R_NW], wnfclen[R_NW];
} rlang;

extern rlang RL[R_NLANG];

void ref_init(const char *verif_root);     /* loads golden lists, verifies SHA256SUMS-independent sanity */

/* GF(2^11), modulus x^11 + x^2 + 1 */
unsigned ref_mul2(unsigned x);
unsigned ref_mulx_pow(unsigned v, int p);           /* v * x^p */
unsigned ref_eval(const unsigned c[16]);            /* sum c_i * 2^i */

/* packing, README table */
void ref_coeffs(const rseed *s, unsigned c[16]);    /* c[0] = check value, no coin */
void ref_from_coeffs(const unsigned c[16], rseed *s);
unsigned ref_check_value(const rseed *s);

/* storage */
void ref_storage(const rseed *s, uint8_t out[32]);
int ref_load(const uint8_t buf[32], unsigned enabled_mask, rseed *out);  /* status */
int ref_supported(unsigned features, unsigned enabled_mask);

/* phrase; out must hold 2048 bytes; returns length. form: 0 = as emitted by encode
 * (NFC if the language composes), 1 = fully decomposed with the raw separator,
 * 2 = NFKD (what the decoder sees: separator becomes ASCII space) */
size_t ref_phrase(const rseed *s, int lang, unsigned coin, char *out, int form);
size_t ref_phrase_from_idx(const unsigned idx[16], int lang, char *out, int form);

/* token recogniser on an NFKD token: index or -1 */
int ref_recognise(int lang, const char *tok);

/* full decoder.  lang = -1: automatic.  The input is first reduced to what the
 * library can see: if a non-ASCII byte occurs in the first cap bytes the string
 * is NFKD-normalised, then it is cut to cap bytes (cap = sizeof(polyseed_str)-1). */
extern int REF_NORMALISER;   /* 0 = the reference decoder normalises with NFKD; 1 = the injected normaliser is the identity */
int ref_decode(const char *str, unsigned coin, int lang, unsigned enabled_mask,
               int alloc_fails, size_t cap, rseed *out, int *lang_out);
/* number of languages that recognise all 16 tokens (after the same reduction);
 * -1 if the token count is not 16; bitmask in *which */
int ref_count_langs(const char *str, size_t cap, unsigned *which);

/* birthday */
unsigned ref_birthday_index(uint64_t t);
uint64_t ref_birthday_time(unsigned idx);

/* KDF inputs */
void ref_keygen_salt(const rseed *s, unsigned coin, uint8_t salt[32]);
void ref_keygen_pw(const rseed *s, uint8_t pw[32]);
/* inverse of (pw, salt) -> (seed, coin); returns 0 if not in the image */
int ref_keygen_inverse(const uint8_t pw[32], const uint8_t salt[32], rseed *s, unsigned *coin);
/* crypt: apply mask (32 bytes as returned by the KDF) */
void ref_crypt(rseed *s, const uint8_t mask[32]);

/* Unicode helpers shared with the injected dependency (libutf8proc).
 * Both write at most cap bytes + NUL into out (out must hold cap+1) and return the stored length.
 * Invalid UTF-8 is copied unchanged. */
size_t u_nfc(const char *s, char *out, size_t cap);
size_t u_nfkd(const char *s, char *out, size_t cap);

int rseed_eq(const rseed *a, const rseed *b);
#endif
