/* E3: stateless exploration of thread interleavings of the real library under a controlled scheduler
 * (C20).  The library is compiled with -fsanitize=thread but linked against the __tsan_* callbacks
 * below instead of libtsan, so every memory access of the library is visible.  Real pthreads, exactly
 * one runnable at a time (semaphore baton).  Scheduling points: every access to the library's writable
 * static data (sections ps_data / ps_bss), and thread exit.  Depth-first search over choice prefixes
 * with a visited set on (shared-section contents, per-thread progress, per-thread hash of values read,
 * running thread).  Oracles per execution: (race) some byte of shared memory touched by two threads,
 * at least one of them writing, or a thread touching another thread's seed memory; (serial
 * equivalence) each thread's transcript equals the transcript of its script run alone. */
#include "h.h"
#include <pthread.h>
#include <semaphore.h>

extern char __start_ps_data[] __attribute__((weak)), __stop_ps_data[] __attribute__((weak));
extern char __start_ps_bss[] __attribute__((weak)), __stop_ps_bss[] __attribute__((weak));
#define MAXT 3
#define MAXP 100000
static int NT = 2;
static sem_t baton[MAXT], alldone;
static volatile int active, cur, nfin, finished[MAXT];
static int *prefix, prefix_len, step, *choices, *nen, *preempt_at;
static uint64_t *keys;
static uint64_t rh[MAXT]; static int pts[MAXT];
static uint8_t *acc_r, *acc_w; static size_t shsz, dsz_, bsz_;
static int PB = -1, preempts;           /* preemption bound, -1 = unbounded */
static int cross_thread;                /* a thread touched another thread's arena */
static int points_overflow;             /* an execution had more scheduling points than the explorer records */
static char cross_msg[200];
#define ARENA 8192
static char arena[MAXT][ARENA] __attribute__((aligned(64))); static size_t apos[MAXT];

static inline int shared_off(void *a, size_t *off) {
    char *p = a;
    if (dsz_ && p >= __start_ps_data && p < __stop_ps_data) { *off = (size_t)(p - __start_ps_data); return 1; }
    if (bsz_ && p >= __start_ps_bss && p < __stop_ps_bss) { *off = dsz_ + (size_t)(p - __start_ps_bss); return 1; }
    return 0;
}
static uint64_t shhash(void) { uint64_t h = 1; for (size_t i = 0; i < dsz_; i++) h = mix64(h, (uint8_t)__start_ps_data[i]); for (size_t i = 0; i < bsz_; i++) h = mix64(h, (uint8_t)__start_ps_bss[i]); return h; }
static uint64_t statekey(void) { uint64_t h = shhash(); for (int t = 0; t < NT; t++) { h = mix64(h, rh[t]); h = mix64(h, (uint64_t)pts[t]); h = mix64(h, (uint64_t)finished[t]); } h = mix64(h, (uint64_t)cur); if (PB >= 0) h = mix64(h, (uint64_t)preempts); return h ? h : 1; }

static void point(void) {
    int en[MAXT], n = 0;
    if (!finished[cur]) en[n++] = cur;
    for (int t = 0; t < NT; t++) if (t != cur && !finished[t]) en[n++] = t;
    if (n == 0) return;
    if (step >= MAXP) {          /* keep running without further switching; the race oracle still sees every access */
        points_overflow = 1;
        if (!finished[cur]) return;
        int nx = en[0], me = cur; cur = nx; (void)me; sem_post(&baton[nx]); return;      /* a finished thread must still hand the baton on */
    }
    int running_enabled = !finished[cur];
    int navail = n;
    if (PB >= 0 && running_enabled && preempts >= PB) navail = 1;      /* no preemption budget left: keep running */
    keys[step] = statekey(); nen[step] = navail;
    int c = step < prefix_len ? prefix[step] : 0;
    if (c >= navail) { fprintf(stderr, "e3: replay diverged (choice %d of %d at step %d)\n", c, navail, step); abort(); }
    preempt_at[step] = (running_enabled && c > 0);
    if (preempt_at[step]) preempts++;
    choices[step++] = c;
    int nx = en[c];
    if (nx != cur) { int me = cur; int me_done = finished[me]; cur = nx; sem_post(&baton[nx]); if (!me_done) { while (sem_wait(&baton[me]) != 0) { } } }   /* finished[] may be reset by the next execution as soon as the post is out */
}
static void access_cb(void *a, size_t sz, int w) {
    size_t off;
    if (!active) return;
    if ((char *)a >= arena[0] && (char *)a < arena[0] + sizeof arena) {
        int owner = (int)(((char *)a - arena[0]) / ARENA);
        if (owner != cur && !cross_thread) { cross_thread = 1; snprintf(cross_msg, sizeof cross_msg, "thread %d %s seed memory of thread %d", cur, w ? "wrote" : "read", owner); }
        return;
    }
    if (!shared_off(a, &off)) return;
    int me = cur;
    point();
    for (size_t i = 0; i < sz && off + i < shsz; i++) { if (w) acc_w[off + i] |= (uint8_t)(1 << me); else acc_r[off + i] |= (uint8_t)(1 << me); }
    if (!w) { uint64_t v = 0; memcpy(&v, a, sz > 8 ? 8 : sz); rh[me] = mix64(rh[me], mix64((uint64_t)off, v)); }
    else rh[me] = mix64(rh[me], 0x77 + (uint64_t)off);
    pts[me]++;
}
void __tsan_init(void) {}
void __tsan_func_entry(void *p) { (void)p; }
void __tsan_func_exit(void) {}
void __tsan_vptr_update(void **a, void *b) { (void)a; (void)b; }
void __tsan_vptr_read(void **a) { (void)a; }
#define RW(n) void __tsan_read##n(void *a) { access_cb(a, n, 0); } void __tsan_write##n(void *a) { access_cb(a, n, 1); } \
              void __tsan_unaligned_read##n(void *a) { access_cb(a, n, 0); } void __tsan_unaligned_write##n(void *a) { access_cb(a, n, 1); } \
              void __tsan_read##n##_pc(void *a, void *pc) { (void)pc; access_cb(a, n, 0); } void __tsan_write##n##_pc(void *a, void *pc) { (void)pc; access_cb(a, n, 1); }
RW(1) RW(2) RW(4) RW(8) RW(16)
void __tsan_read_range(void *a, long n) { access_cb(a, (size_t)n, 0); }
void __tsan_write_range(void *a, long n) { access_cb(a, (size_t)n, 1); }

#define CUR cur
#include "e3_scripts.h"
static volatile int quit_threads; static pthread_t TH[MAXT]; static int threads_up;
static void *thr(void *arg) {
    int id = (int)(intptr_t)arg;
    for (;;) {
        while (sem_wait(&baton[id]) != 0) { }
        if (quit_threads) return NULL;
        script(id);
        finished[id] = 1; nfin++;
        if (nfin == NT) sem_post(&alldone); else point();
    }
}
static void threads_start(void) { quit_threads = 0; for (int t = 0; t < NT; t++) pthread_create(&TH[t], NULL, thr, (void *)(intptr_t)t); threads_up = NT; }
static void threads_stop(void) { quit_threads = 1; for (int t = 0; t < threads_up; t++) sem_post(&baton[t]); for (int t = 0; t < threads_up; t++) pthread_join(TH[t], NULL); threads_up = 0; }
static uint8_t *snap;
static void run_once(void) {
    sec_load(snap);
    memset(acc_r, 0, shsz); memset(acc_w, 0, shsz); step = 0; nfin = 0; preempts = 0; cross_thread = 0; points_overflow = 0;
    for (int t = 0; t < NT; t++) { finished[t] = 0; rh[t] = 0; pts[t] = 0; apos[t] = 0; tr[t] = 0; }
    if (!threads_up) threads_start();
    cur = 0; active = 1; sem_post(&baton[0]); while (sem_wait(&alldone) != 0) { } active = 0;
}
/* serial reference: each script alone */
static uint64_t ref_tr[MAXT]; static int ref_pts[MAXT];
static void serial_reference(void) {
    int keepNT = NT;
    for (int t = 0; t < keepNT; t++) {
        /* run thread t alone: all others marked finished from the start */
        sec_load(snap); memset(acc_r, 0, shsz); memset(acc_w, 0, shsz); step = 0; prefix_len = 0; preempts = 0;
        for (int u = 0; u < keepNT; u++) { finished[u] = (u != t); rh[u] = 0; pts[u] = 0; apos[u] = 0; tr[u] = 0; }
        nfin = keepNT - 1; cur = t; active = 1;
        script(t);            /* on the main thread: point() finds a single enabled thread and never switches */
        active = 0;
        ref_tr[t] = tr[t]; ref_pts[t] = pts[t];
    }
}

/* visited set */
static uint64_t *hs; static size_t HB;
static int seen_add(uint64_t k) { size_t i = (size_t)(k >> 11) & (HB - 1); while (hs[i]) { if (hs[i] == k) return 0; i = (i + 1) & (HB - 1); } hs[i] = k; return 1; }

struct pf { int len; int *c; };
struct outcome { long execs, states, trans, races, divergent, cross; int capped, timed_out; char first[2600]; char firstmsg[400]; int max_preempt; uint64_t distinct_tr; };

static int check_exec(char *msg, size_t ml) {
    int race = 0; size_t roff = 0;
    for (size_t b = 0; b < shsz; b++) { unsigned w = acc_w[b], r = acc_r[b]; unsigned all = w | r; if (w && (all & (all - 1))) { race = 1; roff = b; break; } }
    int dv = -1; for (int t = 0; t < NT; t++) if (tr[t] != ref_tr[t]) { dv = t; break; }
    if (race) { snprintf(msg, ml, "data race on library static data: byte %zu of the writable sections is written by one thread and accessed by another (writers mask %#x, readers mask %#x)", roff, acc_w[roff], acc_r[roff]); return 1; }
    if (cross_thread) { snprintf(msg, ml, "%s", cross_msg); return 3; }
    if (dv >= 0) { snprintf(msg, ml, "thread %d observed results that differ from a serial execution of its calls", dv); return 2; }
    return 0;
}
static void explore(struct outcome *o, long max_states) {
    memset(hs, 0, HB * 8);
    size_t cap = 1 << 16, top = 0; struct pf *stkp = malloc(cap * sizeof *stkp); stkp[top++] = (struct pf){ 0, NULL };
    uint64_t trset[64]; int ntr = 0;
    while (top) {
        struct pf p = stkp[--top]; prefix_len = p.len; if (p.len) memcpy(prefix, p.c, (size_t)p.len * sizeof(int)); free(p.c);
        if (past_deadline()) { o->timed_out = 1; break; }
        run_once(); o->execs++;
        for (int i = 0; i < step; i++) {
            if (i < prefix_len) { continue; }     /* states inside the prefix were recorded by the execution that created it */
            if (!seen_add(keys[i])) break;
            o->states++; o->trans += nen[i];
            if (o->states >= max_states) { o->capped = 1; break; }
            for (int alt = 1; alt < nen[i]; alt++) {
                int *c = malloc((size_t)(i + 1) * sizeof(int)); memcpy(c, choices, (size_t)i * sizeof(int)); c[i] = alt;
                if (top == cap) { cap *= 2; stkp = realloc(stkp, cap * sizeof *stkp); }
                stkp[top++] = (struct pf){ i + 1, c };
            }
        }
        if (preempts > o->max_preempt) o->max_preempt = preempts;
        { uint64_t h = 0; for (int t = 0; t < NT; t++) h = mix64(h, tr[t]); int f = 0; for (int k = 0; k < ntr; k++) if (trset[k] == h) f = 1; if (!f && ntr < 64) trset[ntr++] = h; }
        char msg[400]; int v = check_exec(msg, sizeof msg);
        if (v) {
            if (v == 1) o->races++; else if (v == 2) o->divergent++; else o->cross++;
            if (!o->first[0]) { size_t l = 0; l += (size_t)snprintf(o->first, sizeof o->first, "case %d %d ", HARNESS, PB); int last = step; while (last > 0 && choices[last - 1] == 0) last--; for (int i = 0; i < last && l < sizeof o->first - 12; i++) l += (size_t)snprintf(o->first + l, sizeof o->first - l, "%s%d", i ? "," : "", choices[i]); snprintf(o->firstmsg, sizeof o->firstmsg, "%s", msg); }
            break;       /* stop at the first violation: with a race the state space explodes */
        }
        if (points_overflow) { o->capped = 1; break; }
        if (o->capped) break;
    }
    while (top) free(stkp[--top].c);
    free(stkp);
    o->distinct_tr = (uint64_t)ntr;
}

int main(int argc, char **argv) {
    int a = common_args(argc, argv);
    ref_init(VERIF_ROOT); env_init();      /* the libc-allocator harness goes through hcore's counting wrappers */
    dsz_ = __start_ps_data ? (size_t)(__stop_ps_data - __start_ps_data) : 0; bsz_ = __start_ps_bss ? (size_t)(__stop_ps_bss - __start_ps_bss) : 0; shsz = dsz_ + bsz_;
    polyseed_dependency d = { d_rand, d_kdf, d_mz, d_nfc, d_nfkd, d_time, d_alloc, d_free };
    polyseed_inject(&d); polyseed_enable_features(3);
    acc_r = calloc(shsz + 1, 1); acc_w = calloc(shsz + 1, 1); snap = sec_copy();
    prefix = malloc(MAXP * sizeof(int)); choices = malloc(MAXP * sizeof(int)); nen = malloc(MAXP * sizeof(int)); preempt_at = malloc(MAXP * sizeof(int)); keys = malloc(MAXP * 8);
    for (int t = 0; t < MAXT; t++) sem_init(&baton[t], 0, 0); sem_init(&alldone, 0, 0);
    for (int t = 0; t < MAXT; t++) { rseed s; memset(&s, 0, sizeof s); for (int i = 0; i < 19; i++) s.secret[i] = (uint8_t)(t * 53 + i * 11 + 1); s.secret[18] &= 0x3F; s.birthday = 100 + (unsigned)t; s.features = (unsigned)t & 3; ref_storage(&s, PRE_ST[t]); }
    HB = 1u << 24; hs = calloc(HB, 8);
    struct res *r = calloc(1, sizeof *r);
    if (a < argc && !strcmp(argv[a], "case")) {       /* case <harness> <pb> <choices> : re-execute one schedule, twice */
        HARNESS = atoi(argv[a + 1]); PB = atoi(argv[a + 2]); NT = (HARNESS == 3 || HARNESS == 5) ? 3 : 2;
        { polyseed_dependency dd = { d_rand, d_kdf, d_mz, d_nfc, d_nfkd, d_time, HARNESS == 6 ? NULL : d_alloc, HARNESS == 6 ? NULL : d_free }; polyseed_inject(&dd); polyseed_enable_features(3); free(snap); snap = sec_copy(); }
        serial_reference();
        int n = 0; char *dup = strdup(a + 3 < argc ? argv[a + 3] : ""); for (char *t = strtok(dup, ","); t; t = strtok(NULL, ",")) prefix[n++] = atoi(t);
        int bad = 0; uint64_t k0 = 0;
        for (int rep = 0; rep < 2; rep++) { prefix_len = n; run_once(); char msg[400]; int v = check_exec(msg, sizeof msg); uint64_t kk = 0; for (int i = 0; i < step; i++) kk = mix64(kk, keys[i]); if (rep == 0) k0 = kk; else if (kk != k0) { printf("NOT DETERMINISTIC\n"); return 3; } if (v) { bad = 1; if (!rep) printf("REPRODUCED schedule of %d points: %s\n", step, msg); } }
        return bad;
    }
    int onlyH = 0; if (a + 1 < argc && !strcmp(argv[a], "only")) onlyH = atoi(argv[a + 1]);
    long max_states = G_thorough ? 6000000 : 1500000;
    static const char *CLS[] = { "executions", "executions_with_race", "executions_not_serially_equivalent", NULL };
    out_begin();
    for (HARNESS = 1; HARNESS <= 6; HARNESS++) {
        if (onlyH && HARNESS != onlyH) continue;
        if (HARNESS == 5 && !G_thorough && !onlyH) continue;
        threads_stop();
        NT = (HARNESS == 3 || HARNESS == 5) ? 3 : 2;
        /* H6 runs with the optional allocator entries NULL, every other harness with per-thread arenas */
        { polyseed_dependency dd = { d_rand, d_kdf, d_mz, d_nfc, d_nfkd, d_time, HARNESS == 6 ? NULL : d_alloc, HARNESS == 6 ? NULL : d_free }; sec_load(snap); polyseed_inject(&dd); polyseed_enable_features(3); free(snap); snap = sec_copy(); }
        serial_reference();
        struct outcome o; memset(&o, 0, sizeof o);
        PB = -1; explore(&o, max_states);
        int complete = !o.capped && !o.timed_out && !o.first[0];
        int bound_done = -1;
        if (o.capped && !o.first[0]) {            /* too large for a complete search: iterative preemption bounding */
            for (int pb = 0; pb <= (G_thorough ? 3 : 2); pb++) { struct outcome ob; memset(&ob, 0, sizeof ob); PB = pb; explore(&ob, max_states * 2); o.execs += ob.execs; o.states += ob.states; o.trans += ob.trans; o.races += ob.races; o.divergent += ob.divergent; o.cross += ob.cross; if (ob.first[0] && !o.first[0]) { strcpy(o.first, ob.first); strcpy(o.firstmsg, ob.firstmsg); } if (ob.capped || ob.timed_out || ob.first[0]) break; bound_done = pb; }
        }
        memset(r, 0, sizeof *r);
        r->cases = (uint64_t)o.states; r->calls = (uint64_t)o.trans; r->validated = (uint64_t)o.execs; r->cls[0] = (uint64_t)o.execs; r->cls[1] = (uint64_t)o.races; r->cls[2] = (uint64_t)o.divergent;
        r->timed_out = !complete && bound_done < 0 && !o.first[0];
        if (o.first[0]) { char key[100]; snprintf(key, sizeof key, "c20:%s:H%d", o.races ? "race" : o.cross ? "cross-thread" : "not-serial", HARNESS); res_viol(r, key, o.first, "harness H%d: %s", HARNESS, o.firstmsg); }
        char pp[100] = ""; for (int t = 0; t < NT; t++) snprintf(pp + strlen(pp), sizeof pp - strlen(pp), "%s%d", t ? "+" : "", ref_pts[t]);
        res_sample(r, "H%d: %d threads, shared-access points per thread %s, %ld executions, %llu distinct joint transcripts, max preemptions in one execution %d", HARNESS, NT, pp, o.execs, (unsigned long long)o.distinct_tr, o.max_preempt);
        char name[160]; snprintf(name, sizeof name, "H%d (%d threads): %s", HARNESS, NT, HARNESS == 1 ? "create, encode(es), decode(auto), free" : HARNESS == 2 ? "load, crypt, keygen, encode(jp), decode_explicit, free" : HARNESS == 6 ? "libc allocator (alloc/free entries NULL): create, free, create, store, load, free" : HARNESS == 5 ? "3 x (create, encode, decode(auto), free) in es / fr / en, coin 9" : HARNESS == 4 ? "load+encode(zh_t)+decode(auto)+crypt(non-ASCII) | create+encode(ko)+store+decode_explicit" : "create+encode | load+encode+decode_explicit | load+crypt+keygen, all English / coin 1");
        char note[200]; snprintf(note, sizeof note, "%s; states = distinct (shared data, progress, values read, running thread) keys; transitions = enabled choices", complete ? "all interleavings explored (complete, no preemption bound)" : bound_done >= 0 ? "state cap hit without bound; completed with preemption bound (see e3_preemption_bound)" : "stopped early");
        out_part(name, r, CLS, note);
        char k[64]; snprintf(k, sizeof k, "e3_H%d_complete", HARNESS); out_kv_int(k, complete); snprintf(k, sizeof k, "e3_H%d_preemption_bound", HARNESS); out_kv_int(k, complete ? -1 : bound_done); snprintf(k, sizeof k, "e3_H%d_executions", HARNESS); out_kv_int(k, o.execs);
        for (int t = 0; t < NT; t++) { snprintf(k, sizeof k, "e3_H%d_points_t%d", HARNESS, t); out_kv_int(k, ref_pts[t]); }
    }
    out_kv_int("e3_shared_bytes", (long long)shsz);
    out_end();
    return 0;
}
