/* E3: stateless exploration of thread interleavings of the real library under a controlled scheduler
 * (C20).  The library is compiled with -fsanitize=thread but linked against the __tsan_* callbacks
 * below instead of libtsan, so every memory access of the library is visible.  Real pthreads, exactly
 * one runnable at a time (semaphore baton).  Scheduling points: every access to the library's writable
 * static data (sections ps_data / ps_bss), and thread exit.  Depth-first search over choice prefixes
 * with a visited set on (shared-section contents, per-thread progress, per-thread hash of values read,
 * running thread).  Oracles per execution: (race) two accesses to one byte of shared memory by different
 * threads, at least one a write, not ordered by happens-before (vector clocks; the only happens-before
 * edges are C11 atomic operations of the library itself, which the runtime below also intercepts and treats
 * as scheduling points - a library without atomics has no edges at all), or a thread touching another
 * thread's seed memory; (serial equivalence) each thread's transcript equals the transcript of its script
 * run alone; (progress) no thread spins forever on an atomic that nobody else can change. */
#include "h.h"
#include <pthread.h>
#include <semaphore.h>
#include <setjmp.h>

extern char __start_ps_data[] __attribute__((weak)), __stop_ps_data[] __attribute__((weak));
extern char __start_ps_bss[] __attribute__((weak)), __stop_ps_bss[] __attribute__((weak));
#define MAXT 3
#define MAXP 100000
static int NT = 2;
static sem_t baton[MAXT], alldone;
static volatile int active, cur, nfin, finished[MAXT];
static int *prefix, prefix_len, step, *choices, *nen, *preempt_at;
static uint64_t *keys;
static uint64_t rh[MAXT]; static int pts[MAXT];
static size_t shsz, dsz_, bsz_;
/* happens-before race detector: vector clocks per thread, per shared byte the last write (thread+1, clock) and the last read clock per thread,
 * per shared byte (used as the address of an atomic object) a release clock */
static uint32_t VC[MAXT][MAXT], *w_thr, *w_clk, *r_clk, *l_clk; static int race_found; static size_t race_off; static char race_msg[240];
static int n_atomic_ops;               /* atomic operations of the library seen in this execution */
/* waiting: a thread that repeats an atomic operation on one object, observes the same value and changes nothing, while no shared byte was
 * written in between, is spinning; it is disabled until some shared byte is written.  Nobody enabled but somebody unfinished = deadlock. */
static uint64_t wepoch; static int waiting[MAXT]; static uint64_t wait_epoch[MAXT]; static size_t sp_off[MAXT]; static uint64_t sp_val[MAXT], sp_epoch[MAXT]; static int sp_set[MAXT];
#define STALL_LIMIT 64
static int deadlock, abort_exec, stalled; static jmp_buf jb[MAXT]; static int on_main_thread;
static int PB = -1, preempts;           /* preemption bound, -1 = unbounded */
static int cross_thread;                /* a thread touched another thread's arena */
static int points_overflow;             /* an execution had more scheduling points than the explorer records */
static char cross_msg[200];
static int SYNC_ONLY;       /* scheduling points only at the library's atomic operations (and thread end); plain accesses still feed the race detector */
static double sub_deadline;
static int POOLED; static uint64_t harness_key(void); static void harness_reset(void); static const char *harness_note(void);
#define ARENA 8192
static char arena[MAXT][ARENA] __attribute__((aligned(64))); static size_t apos[MAXT];

static inline int shared_off(void *a, size_t *off) {
    char *p = a;
    if (dsz_ && p >= __start_ps_data && p < __stop_ps_data) { *off = (size_t)(p - __start_ps_data); return 1; }
    if (bsz_ && p >= __start_ps_bss && p < __stop_ps_bss) { *off = dsz_ + (size_t)(p - __start_ps_bss); return 1; }
    return 0;
}
static uint64_t shhash(void) { uint64_t h = 1; for (size_t i = 0; i < dsz_; i++) h = mix64(h, (uint8_t)__start_ps_data[i]); for (size_t i = 0; i < bsz_; i++) h = mix64(h, (uint8_t)__start_ps_bss[i]); return h; }
static uint64_t statekey(void) { uint64_t h = shhash(); for (int t = 0; t < NT; t++) { h = mix64(h, rh[t]); h = mix64(h, (uint64_t)pts[t]); h = mix64(h, (uint64_t)finished[t]); h = mix64(h, (uint64_t)(waiting[t] && wait_epoch[t] == wepoch)); for (int u = 0; u < NT; u++) h = mix64(h, VC[t][u]); } h = mix64(h, (uint64_t)cur); h = mix64(h, harness_key()); if (PB >= 0) h = mix64(h, (uint64_t)preempts); return h ? h : 1; }

static int enabled_t(int t) { return !finished[t] && !(waiting[t] && wait_epoch[t] == wepoch); }
static void leave_execution(int me) {      /* abandon the library frames of a thread that can never finish (deadlock) */
    longjmp(jb[me], 1);
}
static void switch_to(int nx) {
    if (nx == cur) return;
    int me = cur, me_done = finished[me]; cur = nx; sem_post(&baton[nx]);
    if (!me_done) { while (sem_wait(&baton[me]) != 0) { } if (abort_exec) leave_execution(me); }      /* finished[] may be reset by the next execution as soon as the post is out */
}
static void point(void) {
    int en[MAXT], n = 0;
    if (abort_exec && !finished[cur]) leave_execution(cur);
    if (enabled_t(cur)) en[n++] = cur;
    for (int t = 0; t < NT; t++) if (t != cur && enabled_t(t)) en[n++] = t;
    if (n == 0) {
        int unfinished = 0; for (int t = 0; t < NT; t++) if (!finished[t]) unfinished++;
        if (!unfinished) return;
        if (++stalled > STALL_LIMIT) {          /* every unfinished thread has been spinning, taking turns, and nothing changed: nobody can ever finish */
            deadlock = 1; abort_exec = 1;
            if (!finished[cur]) leave_execution(cur);
            for (int t = 0; t < NT; t++) if (!finished[t]) { cur = t; sem_post(&baton[t]); return; }
            return;
        }
        /* only spinners are left: they take turns (deterministic, not a choice point) */
        int nx = cur; for (int k = 1; k <= NT; k++) { int t = (cur + k) % NT; if (!finished[t]) { nx = t; break; } }
        waiting[nx] = 0; switch_to(nx); return;
    }
    if (step >= MAXP) {          /* keep running without further switching; the race oracle still sees every access */
        points_overflow = 1;
        if (enabled_t(cur)) return;
        switch_to(en[0]);       /* a finished or waiting thread must still hand the baton on */
        return;
    }
    int running_enabled = enabled_t(cur);
    int navail = n;
    if (PB >= 0 && running_enabled && preempts >= PB) navail = 1;      /* no preemption budget left: keep running */
    keys[step] = statekey(); nen[step] = navail;
    int c = step < prefix_len ? prefix[step] : 0;
    if (c >= navail) { fprintf(stderr, "e3: replay diverged (choice %d of %d at step %d)\n", c, navail, step); abort(); }
    preempt_at[step] = (running_enabled && c > 0);
    if (preempt_at[step]) preempts++;
    choices[step++] = c;
    waiting[en[c]] = 0;
    switch_to(en[c]);
}
static void note_race(size_t off, int me, int other, int w, const char *what) {
    if (race_found) return;
    race_found = 1; race_off = off;
    snprintf(race_msg, sizeof race_msg, "data race on library static data: byte %zu of the writable sections: %s by thread %d is not ordered after a %s by thread %d (no happens-before edge between them)", off, w ? "write" : "read", me, what, other);
}
static void access_cb(void *a, size_t sz, int w) {
    size_t off;
    if (!active) return;
    if ((char *)a >= arena[0] && (char *)a < arena[0] + sizeof arena) {
        int owner = (int)(((char *)a - arena[0]) / ARENA);
        if (owner != cur && !cross_thread && !POOLED) { cross_thread = 1; snprintf(cross_msg, sizeof cross_msg, "thread %d %s seed memory of thread %d", cur, w ? "wrote" : "read", owner); }
        return;
    }
    if (!shared_off(a, &off)) return;
    if (!SYNC_ONLY) point();
    int me = cur;
    for (size_t i = 0; i < sz && off + i < shsz; i++) {
        size_t b = off + i;
        if (w_thr[b] && (int)w_thr[b] - 1 != me && w_clk[b] > VC[me][w_thr[b] - 1]) note_race(b, me, (int)w_thr[b] - 1, w, "write");
        if (w) {
            for (int u = 0; u < NT; u++) if (u != me && r_clk[b * MAXT + (size_t)u] > VC[me][u]) note_race(b, me, u, w, "read");
            w_thr[b] = (uint32_t)me + 1; w_clk[b] = VC[me][me];
        } else r_clk[b * MAXT + (size_t)me] = VC[me][me];
    }
    if (!w) { uint64_t v = 0; memcpy(&v, a, sz > 8 ? 8 : sz); rh[me] = mix64(rh[me], mix64((uint64_t)off, v)); }
    else { rh[me] = mix64(rh[me], 0x77 + (uint64_t)off); wepoch++; stalled = 0; }
    sp_set[me] = 0;
    pts[me]++;
}
/* ---- C11 atomics of the library (gcc -fsanitize=thread turns them into these calls).  Each is a scheduling point and a
 * synchronisation: every operation acquires and releases the object's clock (memory orders weaker than seq_cst are not
 * modelled: the scheduler explores sequentially consistent interleavings only). */
static int atomic_enter(volatile void *a, size_t *off) {
    if (!active) return 0;
    if (!shared_off((void *)a, off)) return 0;
    point();
    return 1;
}
static void atomic_leave(size_t off, uint64_t observed, int changed, int is_store) {
    int me = cur; n_atomic_ops++;
    if (!changed && !is_store && sp_set[me] && sp_off[me] == off && sp_val[me] == observed && sp_epoch[me] == wepoch) {
        /* the same operation on the same object saw the same value again and nothing shared was written in between: a spin.
         * The repeated attempt leaves the thread's state as it was (no progress, no new clock) and the thread yields. */
        waiting[me] = 1; wait_epoch[me] = wepoch;
        point();
        return;
    }
    uint32_t *L = l_clk + off * MAXT;
    for (int u = 0; u < NT; u++) { if (L[u] > VC[me][u]) VC[me][u] = L[u]; }
    for (int u = 0; u < NT; u++) { if (VC[me][u] > L[u]) L[u] = VC[me][u]; }
    VC[me][me]++;
    rh[me] = mix64(rh[me], mix64(0xA70 + (uint64_t)off, is_store ? 0 : observed));
    pts[me]++;
    if (changed) { wepoch++; stalled = 0; }
    if (changed || is_store) { sp_set[me] = 0; return; }
    sp_set[me] = 1; sp_off[me] = off; sp_val[me] = observed; sp_epoch[me] = wepoch;
}
#define ATOMICS(N, T) \
    T __tsan_atomic##N##_load(const volatile T *a, int mo) { (void)mo; size_t off; int s = atomic_enter(a, &off); T v = __atomic_load_n(a, __ATOMIC_SEQ_CST); if (s) atomic_leave(off, (uint64_t)v, 0, 0); return v; } \
    void __tsan_atomic##N##_store(volatile T *a, T v, int mo) { (void)mo; size_t off; int s = atomic_enter(a, &off); T o = __atomic_exchange_n(a, v, __ATOMIC_SEQ_CST); if (s) atomic_leave(off, 0, o != v, 1); } \
    T __tsan_atomic##N##_exchange(volatile T *a, T v, int mo) { (void)mo; size_t off; int s = atomic_enter(a, &off); T o = __atomic_exchange_n(a, v, __ATOMIC_SEQ_CST); if (s) atomic_leave(off, (uint64_t)o, o != v, 0); return o; } \
    T __tsan_atomic##N##_fetch_add(volatile T *a, T v, int mo) { (void)mo; size_t off; int s = atomic_enter(a, &off); T o = __atomic_fetch_add(a, v, __ATOMIC_SEQ_CST); if (s) atomic_leave(off, (uint64_t)o, v != 0, 0); return o; } \
    T __tsan_atomic##N##_fetch_sub(volatile T *a, T v, int mo) { (void)mo; size_t off; int s = atomic_enter(a, &off); T o = __atomic_fetch_sub(a, v, __ATOMIC_SEQ_CST); if (s) atomic_leave(off, (uint64_t)o, v != 0, 0); return o; } \
    T __tsan_atomic##N##_fetch_and(volatile T *a, T v, int mo) { (void)mo; size_t off; int s = atomic_enter(a, &off); T o = __atomic_fetch_and(a, v, __ATOMIC_SEQ_CST); if (s) atomic_leave(off, (uint64_t)o, (T)(o & v) != o, 0); return o; } \
    T __tsan_atomic##N##_fetch_or(volatile T *a, T v, int mo) { (void)mo; size_t off; int s = atomic_enter(a, &off); T o = __atomic_fetch_or(a, v, __ATOMIC_SEQ_CST); if (s) atomic_leave(off, (uint64_t)o, (T)(o | v) != o, 0); return o; } \
    T __tsan_atomic##N##_fetch_xor(volatile T *a, T v, int mo) { (void)mo; size_t off; int s = atomic_enter(a, &off); T o = __atomic_fetch_xor(a, v, __ATOMIC_SEQ_CST); if (s) atomic_leave(off, (uint64_t)o, v != 0, 0); return o; } \
    T __tsan_atomic##N##_fetch_nand(volatile T *a, T v, int mo) { (void)mo; size_t off; int s = atomic_enter(a, &off); T o = __atomic_fetch_nand(a, v, __ATOMIC_SEQ_CST); if (s) atomic_leave(off, (uint64_t)o, (T)~(o & v) != o, 0); return o; } \
    int __tsan_atomic##N##_compare_exchange_strong(volatile T *a, T *c, T v, int mo, int fmo) { (void)mo; (void)fmo; size_t off; int s = atomic_enter(a, &off); T e = *c; int ok = __atomic_compare_exchange_n(a, c, v, 0, __ATOMIC_SEQ_CST, __ATOMIC_SEQ_CST); if (s) atomic_leave(off, (uint64_t)*c ^ ((uint64_t)ok << 63), ok && e != v, 0); return ok; } \
    int __tsan_atomic##N##_compare_exchange_weak(volatile T *a, T *c, T v, int mo, int fmo) { return __tsan_atomic##N##_compare_exchange_strong(a, c, v, mo, fmo); } \
    T __tsan_atomic##N##_compare_exchange_val(volatile T *a, T c, T v, int mo, int fmo) { __tsan_atomic##N##_compare_exchange_strong(a, &c, v, mo, fmo); return c; }
ATOMICS(8, uint8_t) ATOMICS(16, uint16_t) ATOMICS(32, uint32_t) ATOMICS(64, uint64_t)
void __tsan_atomic_thread_fence(int mo) { (void)mo; }
void __tsan_atomic_signal_fence(int mo) { (void)mo; }
void __tsan_init(void) {}
void __tsan_func_entry(void *p) { (void)p; }
void __tsan_func_exit(void) {}
void __tsan_vptr_update(void **a, void *b) { (void)a; (void)b; }
void __tsan_vptr_read(void **a) { (void)a; }
#define RW(n) void __tsan_read##n(void *a) { access_cb(a, n, 0); } void __tsan_write##n(void *a) { access_cb(a, n, 1); } \
              void __tsan_unaligned_read##n(void *a) { access_cb(a, n, 0); } void __tsan_unaligned_write##n(void *a) { access_cb(a, n, 1); } \
              void __tsan_read##n##_pc(void *a, void *pc) { (void)pc; access_cb(a, n, 0); } void __tsan_write##n##_pc(void *a, void *pc) { (void)pc; access_cb(a, n, 1); }
RW(1) RW(2) RW(4) RW(8) RW(16)
void __tsan_read_range(void *a, long n) { access_cb(a, (size_t)n, 0); }
void __tsan_write_range(void *a, long n) { access_cb(a, (size_t)n, 1); }

#define CUR cur
#define CONCURRENT (!in_serial_reference)
static int in_serial_reference;
#include "e3_scripts.h"
static volatile int quit_threads; static pthread_t TH[MAXT]; static int threads_up;
static void *thr(void *arg) {
    int id = (int)(intptr_t)arg;
    for (;;) {
        while (sem_wait(&baton[id]) != 0) { }
        if (quit_threads) return NULL;
        if (setjmp(jb[id]) == 0) script(id);
        finished[id] = 1; nfin++;
        if (nfin == NT) sem_post(&alldone); else point();
    }
}
static void threads_start(void) { quit_threads = 0; for (int t = 0; t < NT; t++) pthread_create(&TH[t], NULL, thr, (void *)(intptr_t)t); threads_up = NT; }
static void threads_stop(void) { quit_threads = 1; for (int t = 0; t < threads_up; t++) sem_post(&baton[t]); for (int t = 0; t < threads_up; t++) pthread_join(TH[t], NULL); threads_up = 0; }
static uint8_t *snap;
static void shadow_reset(void) {
    memset(w_thr, 0, shsz * 4); memset(w_clk, 0, shsz * 4); memset(r_clk, 0, shsz * MAXT * 4); memset(l_clk, 0, shsz * MAXT * 4);
    memset(VC, 0, sizeof VC); for (int t = 0; t < MAXT; t++) VC[t][t] = 1;
    race_found = 0; n_atomic_ops = 0; wepoch = 0; deadlock = 0; abort_exec = 0; stalled = 0;
    for (int t = 0; t < MAXT; t++) { waiting[t] = 0; sp_set[t] = 0; }
}
static void run_once(void) {
    sec_load(snap);
    shadow_reset(); step = 0; nfin = 0; preempts = 0; cross_thread = 0; points_overflow = 0;
    for (int t = 0; t < NT; t++) { finished[t] = 0; rh[t] = 0; pts[t] = 0; apos[t] = 0; tr[t] = 0; }
    harness_reset();
    if (!threads_up) threads_start();
    cur = 0; active = 1; sem_post(&baton[0]); while (sem_wait(&alldone) != 0) { } active = 0;
}
/* serial reference: each script alone */
static uint64_t ref_tr[MAXT]; static int ref_pts[MAXT]; static int serial_stuck;
static void serial_reference(void) {
    int keepNT = NT; serial_stuck = 0; in_serial_reference = 1; pre_bad = 0;
    for (int t = 0; t < keepNT; t++) {
        /* run thread t alone: all others marked finished from the start */
        sec_load(snap); shadow_reset(); step = 0; prefix_len = 0; preempts = 0;
        for (int u = 0; u < keepNT; u++) { finished[u] = (u != t); rh[u] = 0; pts[u] = 0; apos[u] = 0; tr[u] = 0; }
        harness_reset();
        nfin = keepNT - 1; cur = t; active = 1;
        if (setjmp(jb[t]) == 0) script(t);            /* on the main thread: point() finds a single enabled thread and never switches */
        else { T(t, 0xDEAD10C); serial_stuck = 1; }
        finished[t] = 1; active = 0;
        ref_tr[t] = tr[t]; ref_pts[t] = pts[t];
    }
    in_serial_reference = 0;
}

/* visited set */
static uint64_t *hs; static size_t HB;
static int seen_add(uint64_t k) { size_t i = (size_t)(k >> 11) & (HB - 1); while (hs[i]) { if (hs[i] == k) return 0; i = (i + 1) & (HB - 1); } hs[i] = k; return 1; }

struct pf { int len; int *c; };
struct outcome { long execs, states, trans, races, divergent, cross, stuck, atomics; int capped, timed_out; char first[2600]; char firstmsg[400]; int max_preempt; uint64_t distinct_tr; };

static int check_exec(char *msg, size_t ml) {
    int dv = -1; for (int t = 0; t < NT; t++) if (tr[t] != ref_tr[t]) { dv = t; break; }
    if (race_found) { snprintf(msg, ml, "%s", race_msg); return 1; }
    if (cross_thread) { snprintf(msg, ml, "%s", cross_msg); return 3; }
    if (POOLED && pool_bad) { snprintf(msg, ml, "the library released a block to the shared allocator twice, or released a pointer it never obtained (%d bad releases): another thread can now be handed memory that is still in use", pool_bad); return 3; }
    if (deadlock) { snprintf(msg, ml, "no progress: every unfinished thread spins on an atomic object of the library that no runnable thread can change (deadlock / livelock)"); return 4; }
    if (dv >= 0) { snprintf(msg, ml, "thread %d observed results that differ from a serial execution of its calls%s", dv, harness_note()); return 2; }
    return 0;
}
static void explore(struct outcome *o, long max_states) {
    memset(hs, 0, HB * 8);
    size_t cap = 1 << 16, top = 0; struct pf *stkp = malloc(cap * sizeof *stkp); stkp[top++] = (struct pf){ 0, NULL };
    uint64_t trset[64]; int ntr = 0;
    while (top) {
        struct pf p = stkp[--top]; prefix_len = p.len; if (p.len) memcpy(prefix, p.c, (size_t)p.len * sizeof(int)); free(p.c);
        if (past_deadline() || (sub_deadline > 0 && now_s() > sub_deadline)) { o->timed_out = 1; break; }
        run_once(); o->execs++;
        for (int i = 0; i < step; i++) {
            if (i < prefix_len) { continue; }     /* states inside the prefix were recorded by the execution that created it */
            if (!seen_add(keys[i])) break;
            o->states++; o->trans += nen[i];
            if (o->states >= max_states) { o->capped = 1; break; }
            for (int alt = 1; alt < nen[i]; alt++) {
                int *c = malloc((size_t)(i + 1) * sizeof(int)); memcpy(c, choices, (size_t)i * sizeof(int)); c[i] = alt;
                if (top == cap) { cap *= 2; stkp = realloc(stkp, cap * sizeof *stkp); }
                stkp[top++] = (struct pf){ i + 1, c };
            }
        }
        if (preempts > o->max_preempt) o->max_preempt = preempts;
        if (n_atomic_ops > o->atomics) o->atomics = n_atomic_ops;
        { uint64_t h = 0; for (int t = 0; t < NT; t++) h = mix64(h, tr[t]); int f = 0; for (int k = 0; k < ntr; k++) if (trset[k] == h) f = 1; if (!f && ntr < 64) trset[ntr++] = h; }
        char msg[400]; int v = check_exec(msg, sizeof msg);
        if (v) {
            if (v == 1) o->races++; else if (v == 2) o->divergent++; else if (v == 4) o->stuck++; else o->cross++;
            if (!o->first[0]) { size_t l = 0; l += (size_t)snprintf(o->first, sizeof o->first, "case %d %s%d ", HARNESS, SYNC_ONLY ? "s" : "", PB); int last = step; while (last > 0 && choices[last - 1] == 0) last--; for (int i = 0; i < last && l < sizeof o->first - 12; i++) l += (size_t)snprintf(o->first + l, sizeof o->first - l, "%s%d", i ? "," : "", choices[i]); snprintf(o->firstmsg, sizeof o->firstmsg, "%s", msg); }
            break;       /* stop at the first violation: with a race the state space explodes */
        }
        if (points_overflow) { o->capped = 1; break; }
        if (o->capped) break;
    }
    while (top) free(stkp[--top].c);
    free(stkp);
    o->distinct_tr = (uint64_t)ntr;
}

int main(int argc, char **argv) {
    int a = common_args(argc, argv);
    ref_init(VERIF_ROOT); env_init();      /* the libc-allocator harness goes through hcore's counting wrappers */
    dsz_ = __start_ps_data ? (size_t)(__stop_ps_data - __start_ps_data) : 0; bsz_ = __start_ps_bss ? (size_t)(__stop_ps_bss - __start_ps_bss) : 0; shsz = dsz_ + bsz_;
    polyseed_dependency d = { d_rand, d_kdf, d_mz, d_nfc, d_nfkd, d_time, d_alloc, d_free };
    polyseed_inject(&d); polyseed_enable_features(3);
    w_thr = calloc(shsz + 1, 4); w_clk = calloc(shsz + 1, 4); r_clk = calloc((shsz + 1) * MAXT, 4); l_clk = calloc((shsz + 1) * MAXT, 4); snap = sec_copy();
    prefix = malloc(MAXP * sizeof(int)); choices = malloc(MAXP * sizeof(int)); nen = malloc(MAXP * sizeof(int)); preempt_at = malloc(MAXP * sizeof(int)); keys = malloc(MAXP * 8);
    for (int t = 0; t < MAXT; t++) sem_init(&baton[t], 0, 0); sem_init(&alldone, 0, 0);
    prep_inputs();
    HB = 1u << 24; hs = calloc(HB, 8);
    struct res *r = calloc(1, sizeof *r);
    if (a < argc && !strcmp(argv[a], "case")) {       /* case <harness> <pb> <choices> : re-execute one schedule, twice */
        HARNESS = atoi(argv[a + 1]); SYNC_ONLY = argv[a + 2][0] == 's'; PB = atoi(argv[a + 2] + (SYNC_ONLY ? 1 : 0)); NT = (HARNESS == 3 || HARNESS == 5) ? 3 : 2; POOLED = HARNESS == 8; TWIN = HARNESS == 10;
        { polyseed_dependency dd = { d_rand, d_kdf, d_mz, d_nfc, d_nfkd, d_time, HARNESS == 6 ? NULL : d_alloc, HARNESS == 6 ? NULL : d_free }; polyseed_inject(&dd); polyseed_enable_features(3); free(snap); snap = sec_copy(); }
        serial_reference();
        int n = 0; char *dup = strdup(a + 3 < argc ? argv[a + 3] : ""); for (char *t = strtok(dup, ","); t; t = strtok(NULL, ",")) prefix[n++] = atoi(t);
        int bad = 0; uint64_t k0 = 0;
        for (int rep = 0; rep < 2; rep++) { prefix_len = n; run_once(); char msg[400]; int v = check_exec(msg, sizeof msg); uint64_t kk = 0; for (int i = 0; i < step; i++) kk = mix64(kk, keys[i]); if (rep == 0) k0 = kk; else if (kk != k0) { printf("NOT DETERMINISTIC\n"); return 3; } if (v) { bad = 1; if (!rep) printf("REPRODUCED schedule of %d points: %s\n", step, msg); } }
        return bad;
    }
    int onlyH = 0; if (a + 1 < argc && !strcmp(argv[a], "only")) onlyH = atoi(argv[a + 1]);
    long max_states = G_thorough ? 6000000 : 1500000;
    static const char *CLS[] = { "executions", "executions_with_race", "executions_not_serially_equivalent", "executions_without_progress", NULL };
    out_begin();
    for (HARNESS = 1; HARNESS <= 10; HARNESS++) {
        if (onlyH && HARNESS != onlyH) continue;
        if (HARNESS == 5 && !G_thorough && !onlyH) continue;
        threads_stop();
        NT = (HARNESS == 3 || HARNESS == 5) ? 3 : 2; POOLED = HARNESS == 8; TWIN = HARNESS == 10;
        /* H6 runs with the optional allocator entries NULL, every other harness with per-thread arenas */
        { polyseed_dependency dd = { d_rand, d_kdf, d_mz, d_nfc, d_nfkd, d_time, HARNESS == 6 ? NULL : d_alloc, HARNESS == 6 ? NULL : d_free }; sec_load(snap); polyseed_inject(&dd); polyseed_enable_features(3); free(snap); snap = sec_copy(); }
        serial_reference();
        struct outcome o; memset(&o, 0, sizeof o);
        /* (F) every access to shared library data is a scheduling point, no preemption bound.  Complete for a library whose
         * shared data is read-only after setup.  If it does not finish in its share of the time: (S) scheduling points only at
         * the library's own atomic operations and thread ends, unbounded - sufficient when plain accesses are race free, which the
         * happens-before detector decides on every execution; then (B) granularity F again with preemption bounds 0, 1, 2.. */
        double t0 = now_s(), budget = G_deadline > 0 ? G_deadline - t0 : 600;
        SYNC_ONLY = 0; PB = -1; sub_deadline = t0 + budget * 0.35; explore(&o, max_states); sub_deadline = 0;
        int complete = !o.capped && !o.timed_out && !o.first[0];
        int bound_done = -1, sync_complete = 0; long sync_execs = 0;
        if ((o.capped || o.timed_out) && !o.first[0]) {
            struct outcome os; memset(&os, 0, sizeof os); SYNC_ONLY = 1; PB = -1; sub_deadline = now_s() + budget * 0.25; explore(&os, max_states); sub_deadline = 0; SYNC_ONLY = 0;
            sync_execs = os.execs; sync_complete = !os.capped && !os.timed_out && !os.first[0];
            o.execs += os.execs; o.states += os.states; o.trans += os.trans; o.races += os.races; o.divergent += os.divergent; o.cross += os.cross; o.stuck += os.stuck; if (os.atomics > o.atomics) o.atomics = os.atomics;
            if (os.first[0]) { strcpy(o.first, os.first); strcpy(o.firstmsg, os.firstmsg); }
        }
        if ((o.capped || o.timed_out) && !o.first[0]) {            /* iterative preemption bounding at full granularity */
            o.timed_out = 0;
            for (int pb = 0; pb <= (G_thorough ? 3 : 2); pb++) { struct outcome ob; memset(&ob, 0, sizeof ob); PB = pb; explore(&ob, max_states * 2); o.execs += ob.execs; o.states += ob.states; o.trans += ob.trans; o.races += ob.races; o.divergent += ob.divergent; o.cross += ob.cross; o.stuck += ob.stuck; if (ob.atomics > o.atomics) o.atomics = ob.atomics; if (ob.first[0] && !o.first[0]) { strcpy(o.first, ob.first); strcpy(o.firstmsg, ob.firstmsg); } if (ob.capped || ob.timed_out || ob.first[0]) break; bound_done = pb; }
        }
        memset(r, 0, sizeof *r);
        r->cases = (uint64_t)o.states; r->calls = (uint64_t)o.trans; r->validated = (uint64_t)o.execs; r->cls[0] = (uint64_t)o.execs; r->cls[1] = (uint64_t)o.races; r->cls[2] = (uint64_t)o.divergent; r->cls[3] = (uint64_t)o.stuck;
        r->timed_out = !complete && !sync_complete && bound_done < 0 && !o.first[0];
        if (o.first[0]) { char key[100]; snprintf(key, sizeof key, "c20:%s:H%d", o.races ? "race" : o.cross ? "cross-thread" : o.stuck ? "no-progress" : "not-serial", HARNESS); res_viol(r, key, o.first, "harness H%d: %s", HARNESS, o.firstmsg); }
        if (pre_bad) { res_viol(r, "c20:harness-precondition", "", "harness H%d: run alone, an input did not get the status the harness was built around (refused feature / ambiguous phrase)", HARNESS); }
        if (serial_stuck) { res_viol(r, "c20:serial-stuck", "", "harness H%d: a script run alone never finishes (spins on an atomic object)", HARNESS); }
        char pp[100] = ""; for (int t = 0; t < NT; t++) snprintf(pp + strlen(pp), sizeof pp - strlen(pp), "%s%d", t ? "+" : "", ref_pts[t]);
        res_sample(r, "H%d: %d threads, shared-access points per thread %s, %ld executions, %llu distinct joint transcripts, max preemptions in one execution %d", HARNESS, NT, pp, o.execs, (unsigned long long)o.distinct_tr, o.max_preempt);
        char name[160]; snprintf(name, sizeof name, "H%d (%d threads): %s", HARNESS, NT, HARNESS == 1 ? "create, encode(es), decode(auto), free" : HARNESS == 2 ? "load, crypt, keygen, encode(jp), decode_explicit, free" : HARNESS == 6 ? "libc allocator (alloc/free entries NULL): create, free, create, store, load, free" : HARNESS == 7 ? "decode(auto) of a refused phrase (feature not enabled) + decode_explicit + refused load | decode(auto, es) + refused decode_explicit + decode(auto)" : HARNESS == 8 ? "shared recycling pool allocator: load, free, create, store, free | refused load, create, store, free, load, free" : HARNESS == 10 ? "twin threads (same random blocks, same clock): create, store, create, store, free, free" : HARNESS == 9 ? "ambiguous Chinese phrases: decode(auto) -> multiple languages, decode_explicit(zh_s | zh_t), decode(auto, no lang_out)" : HARNESS == 5 ? "3 x (create, encode, decode(auto), free) in es / fr / en, coin 9" : HARNESS == 4 ? "load+encode(zh_t)+decode(auto)+crypt(non-ASCII) | create+encode(ko)+store+decode_explicit" : "create+encode | load+encode+decode_explicit | load+crypt+keygen, all English / coin 1");
        char note[200]; snprintf(note, sizeof note, "%s; states = distinct (shared data, progress, values read, running thread) keys; transitions = enabled choices", complete ? "all interleavings explored (complete, no preemption bound)" : sync_complete ? "too large at access granularity; all interleavings at synchronisation granularity (library atomics) explored, race detector on every execution; access granularity up to the preemption bound in e3_preemption_bound" : bound_done >= 0 ? "state cap hit without bound; completed with preemption bound (see e3_preemption_bound)" : "stopped early");
        out_part(name, r, CLS, note);
        char k[64]; snprintf(k, sizeof k, "e3_H%d_complete", HARNESS); out_kv_int(k, complete); snprintf(k, sizeof k, "e3_H%d_preemption_bound", HARNESS); out_kv_int(k, complete ? -1 : bound_done); snprintf(k, sizeof k, "e3_H%d_executions", HARNESS); out_kv_int(k, o.execs);
        for (int t = 0; t < NT; t++) { snprintf(k, sizeof k, "e3_H%d_points_t%d", HARNESS, t); out_kv_int(k, ref_pts[t]); }
        snprintf(k, sizeof k, "e3_H%d_library_atomic_ops", HARNESS); out_kv_int(k, o.atomics);
        snprintf(k, sizeof k, "e3_H%d_sync_granularity_complete", HARNESS); out_kv_int(k, complete ? -1 : sync_complete); snprintf(k, sizeof k, "e3_H%d_sync_granularity_executions", HARNESS); out_kv_int(k, sync_execs);
    }
    out_kv_int("e3_shared_bytes", (long long)shsz);
    out_end();
    return 0;
}
