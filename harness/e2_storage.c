/* E2 family "storage" (C06): serialisation is lossless, canonical, strictly validated.
 * Field-wise complete enumeration around K valid images under masks {0,5,7}; every buffer is
 * given to polyseed_load and the status compared with the reference acceptance predicate
 * (precedence FORMAT > CHECKSUM > UNSUPPORTED); acceptance => store(load(buf)) == buf. */
#include "h.h"

static const char *CLS[] = { "ok", "num_words(!)", "lang(!)", "checksum", "unsupported", "format", "memory(!)", "mult(!)", "roundtrip_ok", NULL };
#define MAXK 32
static uint8_t IMG[MAXK][32]; static int NK;
static const unsigned MASKS[3] = { 0, 5, 7 };

static void try_buf(const uint8_t buf[32], unsigned mask, struct res *r, uint64_t id, const char *fam) {
    /* the caller's buffers may sit at any address: images are presented at offsets 0..3 from an aligned block */
    uint8_t raw[40] __attribute__((aligned(16))); uint8_t *copy = raw + (id >> 1) % 4; memcpy(copy, buf, 32);
    polyseed_enable_features((id & 1) ? (mask | 0xFFFFFFF8u) : mask);     /* only the three low bits of the argument count */
    polyseed_data *d = NULL; rseed want_s;
    int st = polyseed_load(copy, &d), want = ref_load(buf, mask, &want_s);
    r->cases++; r->calls++;
    r->digest ^= mix64(id, st);
    if (st >= 0 && st < 8) r->cls[st]++;
    char key[100], rep[120], h[65];
    if (st != want || memcmp(copy, buf, 32)) {
        hex(buf, 32, h); sprintf(rep, "case %s %u", h, mask); snprintf(key, sizeof key, "c06:accept:%s:%d->%d", fam, want, st);
        res_viol(r, key, rep, "load returned %d, reference predicate says %d (or input modified)", st, want);
        if (st == POLYSEED_OK) polyseed_free(d);
        ledger_drop_all(); return;
    }
    if (st == POLYSEED_OK) {
        uint8_t rawb[40] __attribute__((aligned(16))); uint8_t *back = rawb + 1 + (id >> 3) % 3; obs o; char why[200];
        /* what store writes is a function of the seed alone: half of the cases store with every user feature disabled */
        if (id & 4) polyseed_enable_features(0);
        polyseed_store(d, back); r->calls++;
        if (id & 4) polyseed_enable_features((id & 1) ? (mask | 0xFFFFFFF8u) : mask);
        observe(d, 5, &o); r->calls += 12;
        int ok = !memcmp(back, buf, 32) && obs_matches_ref(&o, &want_s, 5, why, sizeof why);
        polyseed_free(d);
        if (!ok) { hex(buf, 32, h); sprintf(rep, "case %s %u", h, mask); snprintf(key, sizeof key, "c06:canonical:%s", fam); res_viol(r, key, rep, "accepted buffer is not reproduced by store, or the loaded seed differs from the fields"); return; }
    }
    if (ledger_live()) { hex(buf, 32, h); sprintf(rep, "case %s %u", h, mask); res_viol(r, "c06:leak", rep, "rejected load left %d block(s) allocated", ledger_live()); ledger_drop_all(); return; }
    r->validated++;
}
/* families: index space per (image k, mask m) */
enum { F_BYTE, F_HDR16, F_B2829, F_B2627, F_B28CHK, F_HDRFIX, F_FOOT, F_FLIP2, F_FLIP3, F_BYTEPAIR, F_N };
static const char *FN[] = { "byte", "hdr16", "b28b29", "b26b27", "b28chk", "hdr16-rechecked", "hdr16xfooter", "flip2", "flip3", "bytepair" };
static long fam_size(int f) {
    switch (f) {
    case F_BYTE: return 32 * 256; case F_HDR16: return 65536; case F_B2829: return 65536; case F_B2627: return 65536;
    case F_B28CHK: return 256L * 2048; case F_HDRFIX: return 65536; case F_FOOT: return 65536L * 8;
    case F_FLIP2: return 256L * 256; case F_FLIP3: return 256L * 256 * 256; case F_BYTEPAIR: return 496L * 65536;
    }
    return 0;
}
static void set_check(uint8_t b[32], unsigned c, unsigned foot) { unsigned v = (foot & 0xF800) | (c & 0x7FF); b[30] = v & 0xff; b[31] = v >> 8; }
static int FAM; static int K0, M0;
static void work(long lo, long hi, struct res *r, void *arg) {
    (void)arg;
    long per = fam_size(FAM);
    for (long x = lo; x < hi; x++) {
        if ((x & 4095) == 0 && past_deadline()) { r->timed_out = 1; return; }
        long y = x % per; long km = x / per; int k = (int)(km / 3); unsigned mask = MASKS[km % 3];
        uint8_t b[32]; memcpy(b, IMG[k], 32);
        switch (FAM) {
        case F_BYTE: b[y / 256] = (uint8_t)(y % 256); break;
        case F_HDR16: b[8] = y & 0xff; b[9] = (uint8_t)(y >> 8); break;
        case F_B2829: b[28] = y & 0xff; b[29] = (uint8_t)(y >> 8); break;
        case F_B2627: b[26] = y & 0xff; b[27] = (uint8_t)(y >> 8); break;
        case F_B28CHK: b[28] = (uint8_t)(y / 2048); set_check(b, (unsigned)(y % 2048), 0x7000); break;
        case F_HDRFIX: { b[8] = y & 0xff; b[9] = (uint8_t)(y >> 8); rseed s; rseed_from_storage(b, &s); set_check(b, ref_check_value(&s), 0x7000); } break;
        case F_FOOT: { static const unsigned FT[8] = { 0x7000, 0x0000, 0x7800, 0x6000, 0xF000, 0x3000, 0x5000, 0xF800 };
                       b[8] = (y >> 3) & 0xff; b[9] = (uint8_t)(y >> 11); rseed s; rseed_from_storage(b, &s); set_check(b, ref_check_value(&s), FT[y & 7]); } break;
        case F_FLIP2: { int i = (int)(y / 256), j = (int)(y % 256); if (j <= i) continue; b[i / 8] ^= 1 << (i % 8); b[j / 8] ^= 1 << (j % 8); } break;
        case F_BYTEPAIR: { long pr = y / 65536; int i = 0, j = 0; for (i = 0; i < 32; i++) { if (pr < 31 - i) { j = i + 1 + (int)pr; break; } pr -= 31 - i; } b[i] = (uint8_t)(y & 0xff); b[j] = (uint8_t)((y >> 8) & 0xff); } break;
        case F_FLIP3: { int i = (int)(y / 65536), j = (int)((y / 256) % 256), l = (int)(y % 256); if (!(i < j && j < l)) continue; b[i / 8] ^= 1 << (i % 8); b[j / 8] ^= 1 << (j % 8); b[l / 8] ^= 1 << (l % 8); } break;
        }
        try_buf(b, mask, r, (uint64_t)x * 16 + FAM, FN[FAM]);
    }
    if (r->nsample < 1 && lo < hi) { char h[65]; hex(IMG[(lo / per) / 3], 32, h); res_sample(r, "family %s around image %s", FN[FAM], h); }
}
/* round trip of every seed of the word sweep */
static void work_rt(long lo, long hi, struct res *r, void *arg) {
    (void)arg;
    for (long x = lo; x < hi; x++) {
        unsigned idx = (unsigned)(x % 2048); int p = 1 + (int)((x / 2048) % 15); int bg = (int)(x / (2048 * 15));
        unsigned c[16]; rseed base; memset(&base, bg == 1 ? 0xFF : 0, sizeof base.secret); base.secret[18] &= 0x3F; base.birthday = bg == 1 ? 1023 : 0; base.features = bg == 1 ? 23 : 0;
        if (bg == 2) { for (int i = 0; i < 19; i++) base.secret[i] = (uint8_t)(0x35 * (i + 1)); base.secret[18] &= 0x3F; base.birthday = 0x155; base.features = 2; }
        ref_coeffs(&base, c); c[p] = idx; rseed s; ref_from_coeffs(c, &s);
        if (s.features & 8) continue;
        uint8_t b[32]; ref_storage(&s, b);
        /* the library's own serialisation of the same seed made through create */
        polyseed_enable_features(7);
        extern uint64_t E_create_clock_shift; E_create_clock_shift = (x & 3) == 3 ? (uint64_t)(1 + (x >> 2) % 5) * 1024 * R_STEP : 0;   /* a clock one or more 1024-month ranges later gives the same month index */
        { static const unsigned HB[6] = { 0, 0x8, 0x10, 0x40, 0xFFFFFFF8u, 0x80000020u }; E_create_high_bits = HB[(x >> 1) % 6]; }
        polyseed_data *d = seed_via_create(&s); r->calls++; r->cases++; E_create_clock_shift = 0; E_create_high_bits = 0;
        if (!d) { res_viol(r, "c06:rt-create", "", "cannot create seed"); continue; }
        uint8_t st[32]; polyseed_store(d, st); polyseed_free(d); r->calls += 2;
        r->digest ^= mix64(x, st[30] | st[31] << 8);
        if (memcmp(st, b, 32)) { char h[65], rep[100]; hex(b, 32, h); sprintf(rep, "case %s 7", h); res_viol(r, "c06:layout", rep, "store of a created seed differs from the reference byte layout"); continue; }
        try_buf(b, 7, r, x, "roundtrip"); r->cases--;   /* same case, second half */
        r->cls[8]++;
    }
}

/* round trip of seeds that went through the password operation: every value of the mask byte that
 * overlaps the 150-bit boundary x secrets; store must give the canonical image and load must accept it */
static void work_crypted(long lo, long hi, struct res *r, void *arg) {
    (void)arg;
    for (long x = lo; x < hi; x++) {
        unsigned mv = (unsigned)(x % 256); int si = (int)((x / 256) % 4); int twice = (int)(x / 1024);
        rseed s; memset(&s, 0, sizeof s); for (int i = 0; i < 19; i++) s.secret[i] = (uint8_t)(si == 0 ? 0 : si == 1 ? 0xFF : 0x3C + 7 * i * si); s.secret[18] &= 0x3F; s.birthday = 400 + (unsigned)si; s.features = (unsigned)si & 7;
        polyseed_enable_features(7);
        polyseed_data *d = seed_via_create(&s); r->calls++; r->cases++;
        if (!d) { res_viol(r, "c06:rt-create", "", "cannot create seed"); continue; }
        for (int i = 0; i < 32; i++) E.mask[i] = (uint8_t)(0x6D * (i + 1) + mv); E.mask[18] = (uint8_t)mv;
        rseed want = s; ref_crypt(&want, E.mask); polyseed_crypt(d, "pw"); r->calls++;
        if (twice) { uint8_t m2[32]; for (int i = 0; i < 32; i++) m2[i] = (uint8_t)(0xC1 ^ (i * 5)); m2[18] = (uint8_t)(mv ^ 0xFF); memcpy(E.mask, m2, 32); ref_crypt(&want, m2); polyseed_crypt(d, "other"); r->calls++; }
        /* ... and, for every other case, of seeds that additionally went through a phrase (encode, decode_explicit with a non-zero coin) */
        if (x & 1) { int li = (int)(x % R_NLANG); unsigned coin = 1 + (unsigned)(x * 37) % 2047; polyseed_str ph; polyseed_encode(d, polyseed_get_lang(li), (polyseed_coin)coin, ph); polyseed_data *d2 = NULL;
            int ds = polyseed_decode_explicit(ph, (polyseed_coin)coin, polyseed_get_lang(li), &d2); r->calls += 2;
            if (ds != POLYSEED_OK) { res_viol(r, "c06:rt-decode", "", "a seed after the password operation does not decode from its own %s phrase (status %d)", RL[li].code, ds); polyseed_free(d); continue; }
            polyseed_free(d); d = d2; }
        uint8_t st[32], exp[32]; polyseed_store(d, st); polyseed_free(d); ref_storage(&want, exp); r->calls += 2;
        r->digest ^= mix64((uint64_t)x + (7ull << 40), st[28] | st[30] << 8 | st[31] << 16);
        char h[65], rep[100]; hex(st, 32, h); sprintf(rep, "case %s 7", h);
        if (memcmp(st, exp, 32)) { res_viol(r, "c06:layout-crypted", rep, "store of a seed after the password operation (mask byte 18 = 0x%02x) is not the canonical image (byte 28 is 0x%02x, expected 0x%02x)", mv, st[28], exp[28]); continue; }
        try_buf(st, 7, r, (uint64_t)x + (8ull << 40), "crypted-roundtrip"); r->cases--;
        r->cls[8]++;
    }
}

int main(int argc, char **argv) {
    int a = common_args(argc, argv);
    ref_init(VERIF_ROOT); sec_mark_initial(); env_init(); inject(0);
    /* the default configuration (no enabling call made in this process yet): images without user features load, the encrypted flag included;
     * images with a user feature or the reserved bit are refused as unsupported */
    struct res *r0 = calloc(1, sizeof *r0);
    { rseed b; memset(&b, 0, sizeof b); for (int i = 0; i < 19; i++) b.secret[i] = (uint8_t)(0x51 + 3 * i); b.secret[18] &= 0x3F; b.birthday = 77;
      static const unsigned F[] = { 0, 16, 1, 4, 17, 8, 24 };
      for (unsigned q = 0; q < sizeof F / sizeof *F; q++) { b.features = F[q]; uint8_t img[32], back[32]; ref_storage(&b, img); polyseed_data *d = NULL; int st = polyseed_load(img, &d), want = ref_load(img, 0, NULL); r0->cases++; r0->calls++;
          memset(back, 0, 32); if (st == POLYSEED_OK) { polyseed_store(d, back); polyseed_free(d); }
          char rep[120], h[65]; hex(img, 32, h); snprintf(rep, sizeof rep, "case %s 0", h);
          if (st != want || (st == POLYSEED_OK && memcmp(back, img, 32))) res_viol(r0, "c06:default-config", rep, "before any enabling call was made in the process: load of an image with feature bits %u returned %d, reference predicate %d", F[q], st, want);
          else { r0->validated++; if (st >= 0 && st < 8) r0->cls[st]++; } }
      res_sample(r0, "images with feature bits 0, 16, 1, 4, 17, 8, 24 loaded before polyseed_enable_features was ever called"); }
    struct res *r = calloc(1, sizeof *r);
    if (a < argc && !strcmp(argv[a], "case")) {
        uint8_t b[32]; unhexn(argv[a + 1], b, 32); unsigned mask = atoi(argv[a + 2]);
        polyseed_enable_features(mask); polyseed_data *d = NULL;
        int st = polyseed_load(b, &d), want = ref_load(b, mask, NULL); printf("load -> %d, reference %d\n", st, want);
        if (st == 0) polyseed_free(d);
        try_buf(b, mask, r, 0, "replay");
        for (int i = 0; i < r->nviol; i++) printf("REPRODUCED %s: %s\n", r->v[i].key, r->v[i].msg);
        return r->nviol ? 1 : 0;
    }
    NK = G_thorough ? 12 : 4;
    uint64_t ps = 0x570 + (uint64_t)G_seed;
    for (int k = 0; k < NK; k++) {
        rseed s; memset(&s, 0, sizeof s);
        if (k == 1) { memset(s.secret, 0xFF, 19); s.secret[18] = 0x3F; s.birthday = 1023; s.features = 23; }
        if (k >= 2) { for (int i = 0; i < 19; i++) s.secret[i] = (uint8_t)prng(&ps); s.secret[18] &= 0x3F; s.birthday = prng(&ps) & 1023; s.features = (k & 1) ? 16 | (prng(&ps) & 7) : (prng(&ps) & 7); }
        ref_storage(&s, IMG[k]);
    }
    out_begin();
    out_part("default configuration: images loaded before any enabling call", r0, CLS, "");
    for (FAM = 0; FAM < F_N; FAM++) {
        if ((FAM == F_FLIP3 || FAM == F_BYTEPAIR) && !G_thorough) continue;
        int nk = (FAM == F_FLIP3 || FAM == F_BYTEPAIR) ? 1 : (FAM == F_B28CHK || FAM == F_FOOT) ? (NK < 4 ? NK : 4) : NK;
        memset(r, 0, sizeof *r);
        par_run(fam_size(FAM) * nk * 3, work, NULL, r);
        char name[100]; snprintf(name, sizeof name, "family %s x %d images x masks{0,5,7}", FN[FAM], nk);
        out_part(name, r, CLS, "");
    }
    memset(r, 0, sizeof *r); par_run(3L * 15 * 2048, work_rt, NULL, r);
    out_part("round trip: create -> store == reference layout -> load -> store", r, CLS, "every 11-bit word value in every position in 3 backgrounds");
    memset(r, 0, sizeof *r); par_run(2048, work_crypted, NULL, r);
    out_part("round trip of seeds after the password operation: 256 values of mask byte 18 x 4 secrets x {once, twice}", r, CLS, "");
    out_kv_int("images", NK);
    out_end();
    return 0;
}
