#define _GNU_SOURCE
/* E2 family "strings" (C14): arbitrary phrases, passwords and buffers are handled safely and totally.
 * Small-scope exhaustive: (a) all strings up to length L over a 9-byte alphabet (ASCII letter, space,
 * UTF-8 lead / continuation bytes of 2- and 3-byte sequences, an invalid byte); (b) the same tails
 * appended to the first 14 and 15 tokens of a valid phrase of every language; (c) boundary-length
 * families around sizeof(polyseed_str).  Run in sanitizer builds; per call: status inside the
 * documented set and equal to the reference decoder, input unchanged, nothing left allocated,
 * termination (watchdog). */
#include "h.h"
#include <unistd.h>
#include <sys/mman.h>
static const char *CLS[] = { "ok", "num_words", "lang", "checksum", "unsupported", "format(!)", "memory(!)", "mult_lang", "crypt_calls", NULL };
static const unsigned char ALPHA[9] = { 'a', ' ', 0xC3, 0xA9, 0xCC, 0x81, 0xE3, 0x80, 0xFF };
static polyseed_data *SEED; static uint8_t SEED_ST[32];
static int EXPL[4] = { 0, 1, 3, 8 };
static const unsigned DMASK[3] = { 7, 0, 2 };

static void feed(const char *s, size_t len, struct res *r, uint64_t id, int do_crypt) {
    /* the string lives in an exactly sized heap block so that ASan sees any read past the terminator */
    char *in = malloc(len + 1), *keep = malloc(len + 1); memcpy(in, s, len); in[len] = 0; memcpy(keep, in, len + 1);
    char rep[2700], key[100];
    { static char hx[2 * 1300 + 4]; size_t hl = len < 1290 ? len : 1290; hex(s, hl, hx); snprintf(rep, sizeof rep, "case %llu %s", (unsigned long long)id, hx); }
    extern char *G_cur; if (G_cur) { strncpy(G_cur, rep, 1999); G_cur[1999] = 0; }
    alarm(20);
    r->cases++;
    unsigned coin = (id & 1) ? ((unsigned)((id * 2654435761u) >> 7) & 2047) : 0;
    unsigned fmask = (id >> 40) == 3 ? DMASK[((id & 0xFFFFFFFFu) / 640) % 3] : 7;      /* family d runs under three enabled masks */
    if (fmask != 7) polyseed_enable_features(fmask);     /* odd cases get their own coin value, even ones coin 0 (so that valid phrases reach the later stages) */
    for (int k = -1; k < 4; k++) {
        polyseed_data *d = NULL; const polyseed_lang *lo = NULL; int li = k < 0 ? -1 : EXPL[k];
        env_clear_log();
        int st = k < 0 ? polyseed_decode(in, (polyseed_coin)coin, &lo, &d) : polyseed_decode_explicit(in, (polyseed_coin)coin, polyseed_get_lang(li), &d); r->calls++;
        long nreq0 = E.alloc_seq;      /* allocation requests this call made */
        if (st == POLYSEED_OK) polyseed_free(d);
        r->digest ^= mix64(id * 8 + (uint64_t)(k + 1), (uint64_t)st);
        if (st < 0 || st > 7 || st == POLYSEED_ERR_FORMAT) { snprintf(key, sizeof key, "c14:status-range:%d", st); res_viol(r, key, rep, "decoder returned undocumented status %d", st); goto out; }
        r->cls[st]++;
        if (memcmp(in, keep, len + 1)) { res_viol(r, "c14:input-modified", rep, "decoder modified its input"); goto out; }
        if (ledger_live() != 1 || E.err_foreign_free || E.err_free_null) { res_viol(r, "c14:ledger", rep, "after the call (status %d): %d blocks live besides the harness seed, foreign frees %d", st, ledger_live() - 1, E.err_foreign_free); ledger_drop_all(); SEED = NULL; polyseed_load(SEED_ST, &SEED); goto out; }
        int want = ref_decode(in, coin, li, fmask, 0, CAP, NULL, NULL);
        if (k < 0) {   /* lang_out is optional */
            polyseed_data *d2 = NULL; int st2 = polyseed_decode(in, (polyseed_coin)coin, NULL, &d2); r->calls++; if (st2 == POLYSEED_OK) polyseed_free(d2);
            if (st2 != st) { res_viol(r, "c14:null-lang-out", rep, "polyseed_decode with lang_out = NULL returned %d, with a pointer %d", st2, st); goto out; }
        }
        if (st == POLYSEED_OK) {   /* the same call with each of its allocation requests refused in turn (their number is learnt from the call above) */
            long nreq = nreq0; if (nreq > 6) nreq = 6;
            for (long fa = 0; fa < nreq; fa++) {
                polyseed_data *d3 = NULL; env_clear_log(); E.fail_at = fa;
                int st3 = k < 0 ? polyseed_decode(in, (polyseed_coin)coin, &lo, &d3) : polyseed_decode_explicit(in, (polyseed_coin)coin, polyseed_get_lang(li), &d3); E.fail_at = -1; r->calls++;
                if (st3 == POLYSEED_OK) polyseed_free(d3);
                if (st3 != POLYSEED_ERR_MEMORY || ledger_live() != 1) { res_viol(r, "c14:alloc-refused", rep, "a decodable phrase with allocation request #%ld of the call refused returned %d (expected the memory status), blocks left %d", fa + 1, st3, ledger_live() - 1); ledger_drop_all(); SEED = NULL; polyseed_load(SEED_ST, &SEED); goto out; }
            }
        }
        if (st != want) { snprintf(key, sizeof key, "c14:status-model:%d->%d", want, st); res_viol(r, key, rep, "%s returned %d, reference decoder %d", k < 0 ? "decode" : "decode_explicit", st, want); goto out; }
    }
    if (do_crypt) {
        env_clear_log();
        polyseed_crypt(SEED, in); r->calls++; r->cls[8]++;
        if (memcmp(in, keep, len + 1)) { res_viol(r, "c14:input-modified", rep, "crypt modified its password"); goto out; }
        if (E.n_kdf != 1 || E.kdf.pwlen > CAP) { res_viol(r, "c14:crypt-kdf", rep, "crypt: KDF calls %lu, password length %zu", E.n_kdf, E.kdf.pwlen); goto out; }
        uint8_t st[32]; polyseed_store(SEED, st); polyseed_data *d = NULL; int ls = polyseed_load(st, &d); r->calls += 2;
        if (ls != POLYSEED_OK) { res_viol(r, "c14:crypt-result", rep, "seed after crypt with this password does not load (%d)", ls); goto out; }
        polyseed_free(d);
        polyseed_crypt(SEED, in); polyseed_store(SEED, st); r->calls += 2;
        if (memcmp(st, SEED_ST, 32)) { res_viol(r, "c14:crypt-involution", rep, "crypt twice with this password does not restore the seed"); polyseed_free(SEED); SEED = NULL; polyseed_load(SEED_ST, &SEED); goto out; }
    }
    r->validated++;
out:
    alarm(0);
    if (fmask != 7) polyseed_enable_features(7);
    free(in); free(keep);
}
/* (a) */
static int LMAX = 6;
static void work_a(long lo, long hi, struct res *r, void *arg) {
    (void)arg;
    for (long x = lo; x < hi; x++) {
        if ((x & 1023) == 0 && past_deadline()) { r->timed_out = 1; return; }
        /* x -> (length, digits): strings ordered by length */
        long y = x; int len = 0; long cnt = 1; while (y >= cnt) { y -= cnt; cnt *= 9; len++; }
        char s[16]; for (int i = 0; i < len; i++) { s[i] = (char)ALPHA[y % 9]; y /= 9; }
        feed(s, (size_t)len, r, (uint64_t)x, 1);
    }
    if (r->nsample < 1 && lo < hi) res_sample(r, "all strings of length <= %d over {a, space, C3, A9, CC, 81, E3, 80, FF}: decode, decode_explicit x4, crypt", LMAX);
}
/* (b) */
static char PRE[R_NLANG][3][PSTR + 8]; static int LB = 4;
static void work_b(long lo, long hi, struct res *r, void *arg) {
    (void)arg;
    long per = 0, c = 1; for (int l = 0; l <= LB; l++) { per += c; c *= 9; }
    for (long x = lo; x < hi; x++) {
        if ((x & 255) == 0 && past_deadline()) { r->timed_out = 1; return; }
        long y = x % per; int which = (int)((x / per) % 3), li = (int)(x / per / 3);
        int len = 0; long cnt = 1; while (y >= cnt) { y -= cnt; cnt *= 9; len++; }
        char s[PSTR + 32]; size_t pl = strlen(PRE[li][which]); memcpy(s, PRE[li][which], pl); if (which < 2) s[pl++] = ' ';
        for (int i = 0; i < len; i++) { s[pl++] = (char)ALPHA[y % 9]; y /= 9; }
        feed(s, pl, r, (uint64_t)x + (1ull << 40), 0);
    }
    if (r->nsample < 1 && lo < hi) res_sample(r, "first 14 / 15 tokens of a valid phrase of each language + space + every tail of length <= %d", LB);
}
/* (c) boundary lengths */
static void work_c(long lo, long hi, struct res *r, void *arg) {
    (void)arg;
    static char buf[4096];
    for (long x = lo; x < hi; x++) {
        if ((x & 63) == 0 && past_deadline()) { r->timed_out = 1; return; }
        int fam = (int)(x % 7); long n = x / 7; size_t len = 0;
        if (fam != 6 && n >= 2 * (long)PSTR + 80) continue;      /* families 0-5 range over lengths up to twice the buffer size */
        long near = (long)PSTR;
        switch (fam) {
        case 0: len = (size_t)n; memset(buf, 'a', len); break;
        case 1: len = (size_t)n; for (size_t i = 0; i < len; i++) buf[i] = (i & 1) ? ' ' : 'a'; break;
        case 2: len = (size_t)(n & ~1L); for (size_t i = 0; i < len; i += 2) { buf[i] = (char)0xC3; buf[i + 1] = (char)0xA9; } break;
        case 3: { /* length near the buffer size with one 2-byte character at a sliding offset */
            long L = near - 24 + n % 49, off = (n / 49); len = (size_t)L; memset(buf, 'a', len); if (off + 1 < L) { buf[off] = (char)0xC3; buf[off + 1] = (char)0xA9; } } break;
        case 4: { /* 16 valid tokens followed by padding that pushes a 17th token across the cut */
            long L = n; size_t pl = strlen(PRE[0][1]); memcpy(buf, PRE[0][1], pl); len = pl; buf[len++] = ' '; memcpy(buf + len, "abandon", 7); len += 7; while ((long)len < L && len < sizeof buf - 8) buf[len++] = (n & 1) ? ' ' : 'x'; if ((long)len >= L && (n % 3) == 0 && len < sizeof buf - 8) { buf[len++] = ' '; buf[len++] = 'z'; } } break;
        case 6: { /* exactly 16 tokens, one of them long (1..520 bytes, ASCII letters / accented letters / ASCII then accent), the others one letter: the whole
                   * phrase fits the buffer, so every lookup stage sees the long token */
            int L = 1 + (int)(n % 520), pos = (int[]){ 0, 7, 15 }[(n / 520) % 3], kind = (int)((n / 1560) % 3); if (n >= 4680) { len = sizeof buf; break; }
            len = 0; for (int i = 0; i < 16; i++) { if (i) buf[len++] = ' '; if (i != pos) { buf[len++] = "abcdefghijklmnop"[i]; continue; }
                for (int j = 0; j < L; j++) { if (kind == 1 && j + 1 < L && (j % 3) == 1) { buf[len++] = (char)0xCC; buf[len++] = (char)0x81; j++; } else if (kind == 2 && j == L - 2 && L >= 2) { buf[len++] = (char)0xC3; buf[len++] = (char)0xA9; j++; } else buf[len++] = (char)('a' + j % 26); } }
            } break;
        case 5: { /* token counts 0..20 x token lengths {0,1,2,3,4,5,6,9,33,34,40} */
            int cntk = (int)(n % 21), tl = (int[]){ 0, 1, 2, 3, 4, 5, 6, 9, 33, 34, 40 }[(n / 21) % 11]; len = 0; for (int i = 0; i < cntk; i++) { if (i) buf[len++] = ' '; memcpy(buf + len, "abandonabandonabandonabandonabandonabandon", (size_t)tl); len += (size_t)tl; } } break;
        }
        if (len >= sizeof buf) continue;
        feed(buf, len, r, (uint64_t)x + (2ull << 40), fam <= 3 || fam == 6);
    }
    if (r->nsample < 1 && lo < hi) res_sample(r, "lengths 0..2*sizeof(polyseed_str)+80 of 'a', 'a ', e-acute; a non-ASCII character at every offset for lengths around the buffer size; 17th token across the cut; token counts x token lengths");
}

/* (d) well-formed phrases (16 known words, valid check word for the coin) of seeds with every one of the 32 feature values, in every
 * language, under three enabled masks: the refusal of a seed whose features are not enabled is a failed call like any other */
static void work_d(long lo, long hi, struct res *r, void *arg) {
    (void)arg;
    for (long x = lo; x < hi; x++) {
        uint64_t id = (3ull << 40) + (uint64_t)x; unsigned coin = (id & 1) ? ((unsigned)((id * 2654435761u) >> 7) & 2047) : 0;
        unsigned f = (unsigned)(x % 32); int li = (int)((x / 32) % R_NLANG); int v = (int)((x / 320) % 2);
        rseed s; for (int i = 0; i < 19; i++) s.secret[i] = (uint8_t)(x * 7 + i * 13 + v * 101); s.secret[18] &= 0x3F; s.birthday = (unsigned)(x * 37) & 1023; s.features = f;
        char ph[2048]; size_t n = ref_phrase(&s, li, coin, ph, v ? 2 : 0);
        EXPL[3] = li;
        feed(ph, n, r, id, 0);
        EXPL[3] = 8;
    }
    if (r->nsample < 1 && lo < hi) res_sample(r, "valid phrases of seeds with feature values 0..31 x 10 languages x enabled masks 7, 0, 2 (as emitted and decomposed)");
}

/* (e) strings longer than 2^31 and 2^32 bytes (a length kept in an int or unsigned wraps): a 2 MiB pattern mapped read-only again and
 * again, terminated at the chosen length.  The first 543 bytes are ASCII, so what the library may look at is fixed and the expected
 * results are those of the first 600 bytes; a write into the input or a read past its end faults */
static const uint64_t HUGE_LEN[] = { (1ull << 31) - 1, 1ull << 31, (1ull << 31) + 1, (1ull << 32) - 1, 1ull << 32, (1ull << 32) + 7, (1ull << 32) + (1ull << 31) + 3 };
#define CHUNK (2u << 20)
static char *huge_string(uint64_t L, int pattern) {
    int fd = memfd_create("pat", 0); if (fd < 0 || ftruncate(fd, CHUNK)) return NULL;
    char *c = mmap(NULL, CHUNK, PROT_READ | PROT_WRITE, MAP_SHARED, fd, 0); if (c == MAP_FAILED) return NULL;
    if (pattern == 0) memset(c, 'a', CHUNK); else for (size_t i = 0; i < CHUNK; i += 8) memcpy(c + i, "abandon ", 8);
    munmap(c, CHUNK);
    uint64_t total = (L + 1 + CHUNK - 1) / CHUNK * CHUNK;
    char *base = mmap(NULL, total + 4096, PROT_NONE, MAP_PRIVATE | MAP_ANONYMOUS | MAP_NORESERVE, -1, 0); if (base == MAP_FAILED) return NULL;
    for (uint64_t off = 0; off < total; off += CHUNK) {
        int last = off + CHUNK >= total;
        if (mmap(base + off, CHUNK, last ? PROT_READ | PROT_WRITE : PROT_READ, MAP_PRIVATE | MAP_FIXED, fd, 0) == MAP_FAILED) return NULL;
        if (last) { base[L] = 0; mprotect(base + off, CHUNK, PROT_READ); }
    }
    close(fd);
    return base;      /* the page after the string stays PROT_NONE */
}
static void work_e(long lo, long hi, struct res *r, void *arg) {
    (void)arg;
    for (long x = lo; x < hi; x++) {
        uint64_t L = HUGE_LEN[x / 2]; int pattern = (int)(x % 2);
        char rep[80], key[100]; snprintf(rep, sizeof rep, "huge %ld", x);
        extern char *G_cur; if (G_cur) strcpy(G_cur, rep);
        char *s = huge_string(L, pattern); r->cases++;
        if (!s) { res_sample(r, "could not map %llu bytes; case skipped", (unsigned long long)L); r->timed_out = 1; continue; }
        char head[601]; memcpy(head, s, 600); head[600] = 0;
        alarm(120);
        for (int k = -1; k < 2; k++) {
            polyseed_data *d = NULL; const polyseed_lang *lo_ = NULL; env_clear_log();
            int st = k < 0 ? polyseed_decode(s, 0, &lo_, &d) : polyseed_decode_explicit(s, 0, polyseed_get_lang(k ? 3 : 0), &d); r->calls++;
            if (st == POLYSEED_OK) polyseed_free(d);
            int want = ref_decode(head, 0, k < 0 ? -1 : (k ? 3 : 0), 7, 0, CAP, NULL, NULL);
            if (st != want) { snprintf(key, sizeof key, "c14:huge-string:%d->%d", want, st); res_viol(r, key, rep, "a string of %llu bytes (%s): %s returned %d, the same string cut to 600 bytes gives %d", (unsigned long long)L, pattern ? "\"abandon \" repeated" : "the letter a repeated", k < 0 ? "decode" : "decode_explicit", st, want); goto next; }
            if (ledger_live() != 1) { res_viol(r, "c14:ledger", rep, "blocks left allocated after decoding a string of %llu bytes", (unsigned long long)L); ledger_drop_all(); SEED = NULL; polyseed_load(SEED_ST, &SEED); goto next; }
            if (st >= 0 && st < 8) r->cls[st]++;
        }
        env_clear_log(); polyseed_crypt(SEED, s); r->calls++; r->cls[8]++;
        if (E.n_kdf != 1 || E.kdf.pwlen != CAP || memcmp(E.kdf.pw, head, CAP)) { res_viol(r, "c14:huge-password", rep, "a password of %llu bytes: the KDF was called %lu times with %zu bytes (expected the first %zu bytes, once)", (unsigned long long)L, E.n_kdf, E.kdf.pwlen, (size_t)CAP); goto next; }
        polyseed_crypt(SEED, s); { uint8_t st2[32]; polyseed_store(SEED, st2); r->calls += 2; if (memcmp(st2, SEED_ST, 32)) { res_viol(r, "c14:crypt-involution", rep, "crypt twice with a password of %llu bytes does not restore the seed", (unsigned long long)L); polyseed_free(SEED); SEED = NULL; polyseed_load(SEED_ST, &SEED); goto next; } }
        r->validated++;
    next:
        alarm(0);
        munmap(s, (L + 1 + CHUNK - 1) / CHUNK * CHUNK + 4096);
    }
    if (r->nsample < 1 && lo < hi) res_sample(r, "NUL-terminated strings of 2^31-1 .. 2^32+2^31+3 bytes (read-only mappings): decode, decode_explicit, crypt");
}

/* (f) 16 tokens each of which several word lists accept at once (abbreviations shared by 2, 3, ... 6 languages): the automatic decoder
 * meets every possible number of matching languages */
static char SHT[64][8]; static int SHN[64], NSH;
static void build_shared(void) {
    int have[11] = {0};
    for (int li = 0; li < R_NLANG && NSH < 60; li++) { if (!RL[li].prefix) continue;
        for (int i = 0; i < R_NW && NSH < 60; i++) { if (strlen(RL[li].wkey[i]) < 4) continue; char p[8]; memcpy(p, RL[li].wkey[i], 4); p[4] = 0;
            int cnt = 0; for (int l2 = 0; l2 < R_NLANG; l2++) if (ref_recognise(l2, p) >= 0) cnt++;
            if (cnt < 2 || have[cnt] >= 8) continue; int dup = 0; for (int q = 0; q < NSH; q++) if (!strcmp(SHT[q], p)) dup = 1; if (dup) continue;
            strcpy(SHT[NSH], p); SHN[NSH] = cnt; NSH++; have[cnt]++; } }
}
static void work_f(long lo, long hi, struct res *r, void *arg) {
    (void)arg;
    for (long x = lo; x < hi; x++) {
        char s[PSTR + 8]; size_t len = 0; int step = (int)(x / NSH), first = (int)(x % NSH);
        for (int i = 0; i < 16; i++) { if (i) s[len++] = ' '; const char *t = SHT[(first + i * step) % NSH]; memcpy(s + len, t, strlen(t)); len += strlen(t); }
        feed(s, len, r, (uint64_t)x + (4ull << 40), 0);
    }
    if (r->nsample < 1 && lo < hi) res_sample(r, "16 x \"%s\" (accepted by %d word lists)", SHT[lo % NSH], SHN[lo % NSH]);
}

/* (g) line terminators and control characters: alone (what fgets returns for an empty line), around a valid phrase, between words */
static void work_g(long lo, long hi, struct res *r, void *arg) {
    (void)arg;
    static const char *CT[] = { "\n", "\r", "\r\n", "\t", "\v", "\f", "\x01", "\x7f", " \n", "\n ", "\n\n", "\r\r\n" };
    const int NCT = (int)(sizeof CT / sizeof *CT);
    for (long x = lo; x < hi; x++) {
        int c = (int)(x % NCT), shape = (int)((x / NCT) % 5), li = (int)(x / NCT / 5) % R_NLANG; char s[PSTR + 64]; size_t len = 0;
        const char *ph = PRE[li][2]; size_t pl = strlen(ph);
        switch (shape) {
        case 0: strcpy(s, CT[c]); len = strlen(s); break;                                                       /* alone */
        case 1: memcpy(s, ph, pl); strcpy(s + pl, CT[c]); len = pl + strlen(CT[c]); break;                       /* after a 16-token phrase */
        case 2: strcpy(s, CT[c]); memcpy(s + strlen(CT[c]), ph, pl + 1); len = pl + strlen(CT[c]); break;        /* in front of it */
        case 3: { const char *sp = strchr(ph, ' '); size_t k = sp ? (size_t)(sp - ph) : 0; memcpy(s, ph, k); strcpy(s + k, CT[c]); strcpy(s + k + strlen(CT[c]), ph + k + 1); len = strlen(s); } break;   /* instead of the first separator */
        case 4: { const char *sp = strchr(ph, ' '); size_t k = sp ? (size_t)(sp - ph) : 0; memcpy(s, ph, k + 1); strcpy(s + k + 1, CT[c]); strcpy(s + k + 1 + strlen(CT[c]), ph + k + 1); len = strlen(s); } break;   /* next to it */
        }
        feed(s, len, r, (uint64_t)x + (5ull << 40), shape == 0);
    }
    if (r->nsample < 1 && lo < hi) res_sample(r, "LF, CR, CRLF, TAB, VT, FF, 01, 7F alone, before / after / inside a valid phrase of each language");
}

/* (h) words written without any separator: n list words of one language glued together, n = 1 .. 220 (up to and beyond the capacity of the
 * library's phrase buffer); a front end that "helpfully" re-inserts separators has to cope with every length */
static void work_h(long lo, long hi, struct res *r, void *arg) {
    (void)arg;
    for (long x = lo; x < hi; x++) {
        int n = (int)(x % 220) + 1, li = (int)(x / 220) % R_NLANG, form = (int)(x / 220 / R_NLANG) % 2; static char s[220 * 40 + 8]; size_t len = 0;
        for (int i = 0; i < n && len < 1200; i++) { const char *w = RL[li].w[(unsigned)(i * 131 + n * 7 + li) % R_NW]; char c[80]; size_t wl; if (form) wl = u_nfc(w, c, sizeof c - 1); else { wl = strlen(w); memcpy(c, w, wl); } memcpy(s + len, c, wl); len += wl; }
        s[len] = 0;
        feed(s, len, r, (uint64_t)x + (6ull << 40), n <= 3);
    }
    if (r->nsample < 1 && lo < hi) res_sample(r, "1 to 220 words of each language glued together without separators, as stored and composed");
}

int main(int argc, char **argv) {
    int a = common_args(argc, argv);
    ref_init(VERIF_ROOT); sec_mark_initial(); env_init(); inject(0); polyseed_enable_features(7);
    struct res *r = calloc(1, sizeof *r);
    polyseed_create(0, &SEED); polyseed_store(SEED, SEED_ST);
    rseed base; rseed_from_storage(SEED_ST, &base);
    for (int li = 0; li < R_NLANG; li++) for (int w = 0; w < 3; w++) { char ph[2048]; ref_phrase(&base, li, 0, ph, 2); int sp = 0; size_t i; for (i = 0; ph[i]; i++) if (ph[i] == ' ' && ++sp == 14 + w) break; ph[i] = 0; strcpy(PRE[li][w], ph); }
    if (a + 1 < argc && !strcmp(argv[a], "huge")) { long x = atol(argv[a + 1]); work_e(x, x + 1, r, NULL); for (int i = 0; i < r->nviol; i++) printf("REPRODUCED %s: %s\n", r->v[i].key, r->v[i].msg); return r->nviol ? 1 : 0; }
    if (a < argc && !strcmp(argv[a], "case")) {
        static char s[1400]; int n = unhexn(argv[a + 2], (uint8_t *)s, sizeof s - 1); if (n < 0) n = 0;
        { uint64_t id = strtoull(argv[a + 1], NULL, 10); if ((id >> 40) == 3) EXPL[3] = (int)(((id & 0xFFFFFFFFu) / 32) % R_NLANG); }
        feed(s, (size_t)n, r, strtoull(argv[a + 1], NULL, 10), 1);
        for (int i = 0; i < r->nviol; i++) printf("REPRODUCED %s: %s\n", r->v[i].key, r->v[i].msg); return r->nviol ? 1 : 0;
    }
    build_shared();
    LMAX = G_thorough ? 7 : 5; LB = G_thorough ? 5 : 4;
    if (a + 1 < argc && !strcmp(argv[a], "--lmax")) { LMAX = atoi(argv[a + 1]); LB = LMAX - 1; }
    long na = 0, c = 1; for (int l = 0; l <= LMAX; l++) { na += c; c *= 9; }
    long nb = 0; c = 1; for (int l = 0; l <= LB; l++) { nb += c; c *= 9; }
    out_begin();
    par_run(na, work_a, NULL, r); out_part("a: all strings up to the length bound over the 9-byte alphabet", r, CLS, "");
    memset(r, 0, sizeof *r); par_run(nb * 3 * R_NLANG, work_b, NULL, r); out_part("b: valid 14-, 15- and 16-token phrases of every language + every tail", r, CLS, "");
    memset(r, 0, sizeof *r); par_run(7L * 4680, work_c, NULL, r); out_part("c: boundary-length families", r, CLS, "");
    memset(r, 0, sizeof *r); par_run(1920, work_d, NULL, r); out_part("d: well-formed phrases with each of the 32 feature values, every language, three enabled masks", r, CLS, "");
    memset(r, 0, sizeof *r); par_run(12L * 5 * R_NLANG, work_g, NULL, r); out_part("g: line terminators and control characters", r, CLS, "");
    memset(r, 0, sizeof *r); par_run(220L * R_NLANG * 2, work_h, NULL, r); out_part("h: list words glued together without separators", r, CLS, "");
    memset(r, 0, sizeof *r); par_run((long)NSH * 4, work_f, NULL, r); out_part("f: 16 abbreviations that 2 to 6 word lists accept at once", r, CLS, "every number of simultaneously matching languages");
    memset(r, 0, sizeof *r); par_run(14, work_e, NULL, r); out_part("e: strings of 2^31 and 2^32 bytes and their neighbours", r, CLS, "lengths that do not fit an int / unsigned");
    out_kv_int("alphabet", 9); out_kv_int("max_len_a", LMAX); out_kv_int("max_tail_b", LB);
    out_end();
    return 0;
}
