/* Free-running pass of the E3 thread scripts under the real ThreadSanitizer (build mode "tsan").
 * It explores nothing systematically and decides nothing on its own: the controlled scheduler's
 * baton hand-offs are happens-before edges that would blind a race detector, so the same bodies are
 * also run unsynchronised here to keep visible any unsynchronised access made by code the custom
 * runtime does not instrument (libc helpers working on library data).  A TSan report is a real race. */
#include "h.h"
#include <pthread.h>
#define MAXT 8
#define ARENA 8192
static __thread int my_id;
#define CUR my_id
#define CONCURRENT 1
static char arena[MAXT][ARENA] __attribute__((aligned(64))); static size_t apos[MAXT];
#include "e3_scripts.h"
static pthread_barrier_t bar; static int ITER = 300, NTHREADS = 8;
static uint64_t first_tr[6][MAXT]; static const int HS[6] = { 1, 2, 3, 4, 7, 9 }; static int mismatch;
static void *worker(void *arg) {
    my_id = (int)(intptr_t)arg;
    for (int it = 0; it < ITER; it++) {
        pthread_barrier_wait(&bar);
        apos[my_id] = 0; tr[my_id] = 0;
        /* script ids: harness alternates; the script of thread id%NT of that harness */
        int hi = it % 6, h = HS[hi]; int nt = h == 3 ? 3 : 2;
        script_h(h, my_id % nt, my_id);
        uint64_t v = tr[my_id];
        if (it < 6) first_tr[hi][my_id] = v; else if (first_tr[hi][my_id] != v) __atomic_store_n(&mismatch, 1, __ATOMIC_RELAXED);
    }
    return NULL;
}
int main(int argc, char **argv) {
    int a = common_args(argc, argv); (void)a;
    ref_init(VERIF_ROOT);
    if (G_thorough) ITER = 3000;
    polyseed_dependency d = { d_rand, d_kdf, d_mz, d_nfc, d_nfkd, d_time, d_alloc, d_free };
    polyseed_inject(&d); polyseed_enable_features(3);
    prep_inputs();
    pthread_barrier_init(&bar, NULL, (unsigned)NTHREADS);
    pthread_t th[MAXT];
    for (int t = 0; t < NTHREADS; t++) pthread_create(&th[t], NULL, worker, (void *)(intptr_t)t);
    for (int t = 0; t < NTHREADS; t++) pthread_join(th[t], NULL);
    struct res *r = calloc(1, sizeof *r);
    r->cases = (uint64_t)ITER * (uint64_t)NTHREADS; r->calls = r->cases * 5; r->validated = r->cases;
    if (mismatch) res_viol(r, "c20:free-run-transcript", "", "a thread's transcript changed between iterations of the free-running pass");
    res_sample(r, "%d threads x %d iterations of the H1/H2/H3/H4/H7/H9 bodies under ThreadSanitizer (free running, barrier per iteration)", NTHREADS, ITER);
    static const char *CLS[] = { NULL };
    out_begin(); out_part("free-running ThreadSanitizer pass (not an exploration; supplementary race visibility)", r, CLS, "a ThreadSanitizer report makes the process exit with status 66"); out_end();
    return 0;
}
