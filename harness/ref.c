/* Reference model - see ref.h.  Written from README.md + polyseed.h. */
#define _GNU_SOURCE
#include "ref.h"
#include <stdio.h>
#include <stdlib.h>
#include <string.h>
#include <utf8proc.h>

rlang RL[R_NLANG];
static const char *CODES[R_NLANG] = {"en","jp","ko","es","fr","it","cs","pt","zh_s","zh_t"};

/* ---------------------------------------------------------------- unicode */
static size_t u_map(const char *s, char *out, size_t cap, utf8proc_option_t opt) {
    utf8proc_uint8_t *r = NULL;
    utf8proc_ssize_t n = utf8proc_map((const utf8proc_uint8_t *)s, 0, &r,
                                      UTF8PROC_NULLTERM | UTF8PROC_STABLE | opt);
    if (n < 0) { /* invalid UTF-8: copy unchanged */
        size_t m = strlen(s);
        if (m > cap) m = cap;
        memcpy(out, s, m); out[m] = 0;
        return m;
    }
    size_t m = (size_t)n;
    if (m > cap) m = cap;
    memcpy(out, r, m); out[m] = 0;
    memset(r, 0, (size_t)n);
    free(r);
    return m;
}
size_t u_nfc(const char *s, char *out, size_t cap) { return u_map(s, out, cap, UTF8PROC_COMPOSE); }
size_t u_nfkd(const char *s, char *out, size_t cap) { return u_map(s, out, cap, UTF8PROC_DECOMPOSE | UTF8PROC_COMPAT); }

/* ---------------------------------------------------------------- word lists */
#define HT 8192
typedef struct { const char *k; int idx; } hent;
static hent H_exact[R_NLANG][HT];
static hent H_pre4[R_NLANG][HT];
static char pre4buf[R_NLANG][R_NW][5];

static unsigned hstr(const char *s, size_t n) {
    unsigned h = 2166136261u;
    for (size_t i = 0; i < n; i++) { h ^= (uint8_t)s[i]; h *= 16777619u; }
    return h;
}
static int ht_put(hent *t, const char *k, int idx) { /* returns -1 if key already present */
    unsigned i = hstr(k, strlen(k)) & (HT - 1);
    while (t[i].k) { if (!strcmp(t[i].k, k)) return -1; i = (i + 1) & (HT - 1); }
    t[i].k = k; t[i].idx = idx; return 0;
}
static int ht_get(const hent *t, const char *k) {
    unsigned i = hstr(k, strlen(k)) & (HT - 1);
    while (t[i].k) { if (!strcmp(t[i].k, k)) return t[i].idx; i = (i + 1) & (HT - 1); }
    return -1;
}
static void strip_nonascii(const char *s, char *o) {
    for (; *s; s++) if (!((uint8_t)*s & 0x80)) *o++ = *s;
    *o = 0;
}
static void die(const char *m, const char *a) { fprintf(stderr, "refmodel: %s %s\n", m, a ? a : ""); exit(3); }

static int unhex(const char *h, char *out) {
    int n = 0;
    for (; h[0] && h[1]; h += 2) { unsigned v; sscanf(h, "%2x", &v); out[n++] = (char)v; }
    out[n] = 0; return n;
}

void ref_init(const char *root) {
    static int done; if (done) return; done = 1;
    char path[512], line[512];
    snprintf(path, sizeof path, "%s/golden/langs.tsv", root);
    FILE *f = fopen(path, "r"); if (!f) die("cannot open", path);
    for (int li = 0; li < R_NLANG; li++) {
        rlang *L = &RL[li];
        if (!fgets(line, sizeof line, f)) die("short langs.tsv", 0);
        char code[16], name_en[64], sephex[32], namehex[128];
        int a, b, c, d;
        /* name_en may contain spaces: fields are tab separated */
        char *p = line, *fld[8]; int nf = 0;
        while (nf < 8) { fld[nf++] = p; char *t = strpbrk(p, "\t\n"); if (!t) break; *t = 0; p = t + 1; }
        if (nf != 8) die("bad langs.tsv line", line);
        strcpy(code, fld[0]); strcpy(name_en, fld[1]); strcpy(sephex, fld[2]);
        a = atoi(fld[3]); b = atoi(fld[4]); c = atoi(fld[5]); d = atoi(fld[6]); strcpy(namehex, fld[7]);
        if (strcmp(code, CODES[li])) die("language order", code);
        strcpy(L->code, code); strcpy(L->name_en, name_en);
        unhex(sephex, L->sep); unhex(namehex, L->name);
        L->sorted = a; L->prefix = b; L->accents = c; L->compose = d;
        snprintf(path, sizeof path, "%s/golden/words_%s.txt", root, code);
        FILE *g = fopen(path, "r"); if (!g) die("cannot open", path);
        for (int i = 0; i < R_NW; i++) {
            char w[128], t[256];
            if (!fgets(w, sizeof w, g)) die("short word list", path);
            w[strcspn(w, "\n")] = 0;
            L->w[i] = strdup(w); L->wlen[i] = strlen(w);
            u_nfc(w, t, sizeof t - 1); L->wnfc[i] = strdup(t); L->wnfclen[i] = strlen(t);
            if (L->accents) { strip_nonascii(w, t); L->wkey[i] = strdup(t); } else L->wkey[i] = L->w[i];
            if (ht_put(H_exact[li], L->wkey[i], i)) die("duplicate word key in golden list", w);
            if (L->prefix && strlen(L->wkey[i]) >= 4) {
                memcpy(pre4buf[li][i], L->wkey[i], 4); pre4buf[li][i][4] = 0;
                if (ht_put(H_pre4[li], pre4buf[li][i], i)) die("shared 4-letter prefix in golden list", w);
            }
        }
        fclose(g);
    }
    fclose(f);
}

int ref_recognise(int li, const char *tok) {
    const rlang *L = &RL[li];
    char kbuf[1024]; const char *k = tok;
    size_t tl = strlen(tok);
    if (tl == 0 || tl >= sizeof kbuf) return -1;
    if (L->accents) { strip_nonascii(tok, kbuf); k = kbuf; if (!*k) return -1; }
    int idx = ht_get(H_exact[li], k);
    if (idx >= 0) return idx;
    if (L->prefix) {
        size_t kl = strlen(k);
        if (kl >= 4) {
            char p4[5]; memcpy(p4, k, 4); p4[4] = 0;
            int c = ht_get(H_pre4[li], p4);
            if (c >= 0 && kl <= strlen(L->wkey[c]) && !strncmp(L->wkey[c], k, kl)) return c;
        }
    }
    return -1;
}

/* ---------------------------------------------------------------- field */
unsigned ref_mul2(unsigned x) {
    x <<= 1;
    if (x & 0x800) x ^= 0x805; /* x^11 + x^2 + 1 */
    return x;
}
unsigned ref_mulx_pow(unsigned v, int p) { while (p-- > 0) v = ref_mul2(v); return v; }
unsigned ref_eval(const unsigned c[16]) {
    unsigned r = 0;
    for (int i = 0; i < 16; i++) r ^= ref_mulx_pow(c[i], i);
    return r;
}

/* ---------------------------------------------------------------- packing */
static unsigned sbit(const rseed *s, int k) { /* bit k of the 150-bit secret, 0 = most significant */
    if (k < 144) return (s->secret[k / 8] >> (7 - (k % 8))) & 1;
    return (s->secret[18] >> (5 - (k - 144))) & 1;
}
static void sbit_set(rseed *s, int k, unsigned v) {
    if (!v) return;
    if (k < 144) s->secret[k / 8] |= (uint8_t)(1u << (7 - (k % 8)));
    else s->secret[18] |= (uint8_t)(1u << (5 - (k - 144)));
}
void ref_coeffs(const rseed *s, unsigned c[16]) {
    unsigned extra = ((s->features & 31) << 10) | (s->birthday & 1023);
    c[0] = 0;
    for (int i = 1; i <= 15; i++) {
        unsigned v = 0;
        for (int b = 0; b < 10; b++) v = (v << 1) | sbit(s, 10 * (i - 1) + b);
        v = (v << 1) | ((extra >> (15 - i)) & 1);
        c[i] = v;
    }
    /* choose c0 so that the polynomial evaluates to zero at x = 2 */
    c[0] = ref_eval(c);
}
unsigned ref_check_value(const rseed *s) { unsigned c[16]; ref_coeffs(s, c); return c[0]; }
void ref_from_coeffs(const unsigned c[16], rseed *s) {
    memset(s, 0, sizeof *s);
    unsigned extra = 0;
    for (int i = 1; i <= 15; i++) {
        for (int b = 0; b < 10; b++) sbit_set(s, 10 * (i - 1) + b, (c[i] >> (10 - b)) & 1);
        extra = (extra << 1) | (c[i] & 1);
    }
    s->birthday = extra & 1023; s->features = extra >> 10;
}
int rseed_eq(const rseed *a, const rseed *b) {
    return !memcmp(a->secret, b->secret, 19) && a->birthday == b->birthday && a->features == b->features;
}

/* ---------------------------------------------------------------- storage */
void ref_storage(const rseed *s, uint8_t o[32]) {
    memcpy(o, "POLYSEED", 8);
    unsigned v = ((s->features & 31) << 10) | (s->birthday & 1023);
    o[8] = v & 0xff; o[9] = v >> 8;
    memcpy(o + 10, s->secret, 19);
    o[29] = 0xFF;
    unsigned c = 0x7000 | ref_check_value(s);
    o[30] = c & 0xff; o[31] = c >> 8;
}
int ref_supported(unsigned features, unsigned mask) {
    return (features & ~((mask & 7) | 16u) & 31u) == 0;
}
int ref_load(const uint8_t b[32], unsigned mask, rseed *out) {
    rseed s; memset(&s, 0, sizeof s);
    if (memcmp(b, "POLYSEED", 8)) return ST_FORMAT;
    unsigned v = b[8] | (b[9] << 8);
    if (v & 0x8000) return ST_FORMAT;
    if (b[28] & 0xC0) return ST_FORMAT;
    if (b[29] != 0xFF) return ST_FORMAT;
    unsigned c = b[30] | (b[31] << 8);
    if ((c & 0xF800) != 0x7000) return ST_FORMAT;
    s.birthday = v & 1023; s.features = v >> 10;
    memcpy(s.secret, b + 10, 19);
    if (ref_check_value(&s) != (c & 0x7FF)) return ST_CHECKSUM;
    if (!ref_supported(s.features, mask)) return ST_UNSUPPORTED;
    if (out) *out = s;
    return ST_OK;
}

/* ---------------------------------------------------------------- phrase */
size_t ref_phrase_from_idx(const unsigned idx[16], int li, char *out, int form) {
    const rlang *L = &RL[li];
    char *p = out;
    for (int i = 0; i < 16; i++) {
        if (i) { if (form == 2) *p++ = ' '; else { strcpy(p, L->sep); p += strlen(L->sep); } }
        if (form == 0 && L->compose) { memcpy(p, L->wnfc[idx[i]], L->wnfclen[idx[i]]); p += L->wnfclen[idx[i]]; }
        else { memcpy(p, L->w[idx[i]], L->wlen[idx[i]]); p += L->wlen[idx[i]]; }
    }
    *p = 0;
    return (size_t)(p - out);
}
size_t ref_phrase(const rseed *s, int li, unsigned coin, char *out, int form) {
    unsigned c[16]; ref_coeffs(s, c); c[1] ^= (coin & 2047);
    return ref_phrase_from_idx(c, li, out, form);
}

/* ---------------------------------------------------------------- decoder */
int REF_NORMALISER;      /* which normaliser the library was given: 0 = NFKD (the documented one), 1 = identity */
static size_t reduce(const char *str, size_t cap, char *buf /* cap+1 */) {
    size_t n = 0; int nonascii = 0;
    for (; str[n] && n < cap; n++) if ((uint8_t)str[n] & 0x80) { nonascii = 1; break; }
    if (nonascii && REF_NORMALISER == 1) { n = strnlen(str, cap); memcpy(buf, str, n); buf[n] = 0; return n; }      /* the injected normaliser is the identity */
    if (nonascii) return u_nfkd(str, buf, cap);
    n = strnlen(str, cap);
    memcpy(buf, str, n); buf[n] = 0;
    return n;
}
/* split in place; returns token count (17 = too many) */
static int split(char *s, char *tok[17]) {
    int n = 0; char *p = s;
    if (!*s) return 0;
    for (;;) {
        char *q = strchr(p, ' ');
        if (n < 17) tok[n] = p;
        n++;
        if (n >= 17) break;        /* a 17th token: too many, stop */
        if (!q) break;
        *q = 0; p = q + 1;
        if (!*p) break;            /* a single trailing space is ignored */
    }
    return n;
}
int ref_count_langs(const char *str, size_t cap, unsigned *which) {
    char *buf = malloc(cap + 1); char *tok[17];
    reduce(str, cap, buf);
    int n = split(buf, tok), cnt = 0; unsigned m = 0;
    if (n != 16) { free(buf); return -1; }
    for (int li = 0; li < R_NLANG; li++) {
        int ok = 1;
        for (int i = 0; i < 16 && ok; i++) if (ref_recognise(li, tok[i]) < 0) ok = 0;
        if (ok) { cnt++; m |= 1u << li; }
    }
    free(buf); if (which) *which = m; return cnt;
}
int ref_decode(const char *str, unsigned coin, int lang, unsigned mask, int alloc_fails,
               size_t cap, rseed *out, int *lang_out) {
    char *buf = malloc(cap + 1); char *tok[17]; unsigned c[16]; int st;
    reduce(str, cap, buf);
    int n = split(buf, tok);
    if (n != 16) { st = ST_NUM_WORDS; goto done; }
    if (lang >= 0) {
        for (int i = 0; i < 16; i++) { int v = ref_recognise(lang, tok[i]); if (v < 0) { st = ST_LANG; goto done; } c[i] = (unsigned)v; }
        if (lang_out) *lang_out = lang;
    } else {
        int found = -1, cnt = 0;
        for (int li = 0; li < R_NLANG; li++) {
            unsigned t[16]; int ok = 1;
            for (int i = 0; i < 16 && ok; i++) { int v = ref_recognise(li, tok[i]); if (v < 0) ok = 0; else t[i] = (unsigned)v; }
            if (ok) { cnt++; if (cnt == 1) { found = li; memcpy(c, t, sizeof c); } }
        }
        if (cnt == 0) { st = ST_LANG; goto done; }
        if (cnt > 1) { st = ST_MULT_LANG; goto done; }
        if (lang_out) *lang_out = found;
    }
    c[1] ^= (coin & 2047);
    if (ref_eval(c) != 0) { st = ST_CHECKSUM; goto done; }
    if (alloc_fails) { st = ST_MEMORY; goto done; }
    {
        rseed s; ref_from_coeffs(c, &s);
        if (!ref_supported(s.features, mask)) { st = ST_UNSUPPORTED; goto done; }
        if (out) *out = s;
        st = ST_OK;
    }
done:
    free(buf);
    return st;
}

/* ---------------------------------------------------------------- birthday */
unsigned ref_birthday_index(uint64_t t) {
    if (t == UINT64_MAX || t < R_EPOCH) return 0;
    unsigned __int128 d = (unsigned __int128)t - R_EPOCH;
    unsigned __int128 q = d / R_STEP;
    return (unsigned)(q & 1023);   /* months beyond the 1024-month range wrap (documented range ends in 2107) */
}
uint64_t ref_birthday_time(unsigned idx) { return R_EPOCH + (uint64_t)idx * R_STEP; }

/* ---------------------------------------------------------------- KDF inputs */
static void le32(uint8_t *p, uint32_t v) { p[0] = v; p[1] = v >> 8; p[2] = v >> 16; p[3] = v >> 24; }
void ref_keygen_salt(const rseed *s, unsigned coin, uint8_t salt[32]) {
    memset(salt, 0, 32);
    memcpy(salt, "POLYSEED key", 12);
    salt[12] = 0; salt[13] = 0xFF; salt[14] = 0xFF; salt[15] = 0xFF;
    le32(salt + 16, coin); le32(salt + 20, s->birthday); le32(salt + 24, s->features);
}
void ref_keygen_pw(const rseed *s, uint8_t pw[32]) { memset(pw, 0, 32); memcpy(pw, s->secret, 19); }
int ref_keygen_inverse(const uint8_t pw[32], const uint8_t salt[32], rseed *s, unsigned *coin) {
    static const uint8_t head[16] = {'P','O','L','Y','S','E','E','D',' ','k','e','y',0,0xFF,0xFF,0xFF};
    if (memcmp(salt, head, 16)) return 0;
    for (int i = 19; i < 32; i++) if (pw[i]) return 0;
    if (pw[18] & 0xC0) return 0;
    for (int i = 28; i < 32; i++) if (salt[i]) return 0;
    uint32_t c = salt[16] | salt[17] << 8 | salt[18] << 16 | (uint32_t)salt[19] << 24;
    uint32_t b = salt[20] | salt[21] << 8 | salt[22] << 16 | (uint32_t)salt[23] << 24;
    uint32_t f = salt[24] | salt[25] << 8 | salt[26] << 16 | (uint32_t)salt[27] << 24;
    if (c > 2047 || b > 1023 || f > 31) return 0;
    memcpy(s->secret, pw, 19); s->birthday = b; s->features = f; *coin = c;
    return 1;
}
void ref_crypt(rseed *s, const uint8_t mask[32]) {
    for (int i = 0; i < 19; i++) s->secret[i] ^= mask[i];
    s->secret[18] &= 0x3F;
    s->features ^= 16;
}
