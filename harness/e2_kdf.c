/* E2 family "kdf" (C04): key derivation receives exact, deterministic, domain-separated inputs.
 * All 2048 coins x 1024 birthdays x secrets (x all loadable feature values, thorough); every
 * argument of the single KDF call compared with the reference; constructive inverse; the key
 * buffer sits at the end of a page that becomes inaccessible the moment the KDF returns, so any
 * later read or write by the library faults. */
#include "h.h"
#include <sys/mman.h>
#include <unistd.h>
#include <signal.h>
#include <setjmp.h>

static const char *CLS[] = { "keygen_args_exact", "key_page_protected_calls", "path_independent", NULL };
extern void (*E_kdf_hook)(uint8_t *key, size_t keylen);
static uint8_t *PAGE; static long PG; static int protect_on; static volatile int protected_now;
static sigjmp_buf JB; static volatile int armed;
static void hook(uint8_t *key, size_t keylen) { (void)key; (void)keylen; if (protect_on) { protected_now = 1; mprotect(PAGE, (size_t)PG, PROT_NONE); } }
static void on_segv(int sig, siginfo_t *si, void *u) { (void)u; (void)sig;
    if (armed && (uint8_t *)si->si_addr >= PAGE && (uint8_t *)si->si_addr < PAGE + PG) { mprotect(PAGE, (size_t)PG, PROT_READ | PROT_WRITE); protected_now = 0; siglongjmp(JB, 1); }
    signal(SIGSEGV, SIG_DFL); raise(SIGSEGV);
}
static const size_t KS[] = { 32, 0, 1, 31, 33, 64, 4000 };

/* returns 0 ok */
static int keygen_case(polyseed_data *s, const rseed *ref, unsigned coin, size_t ksz, int protect, struct res *r, const char *rep, const char *fam) {
    char key[100]; snprintf(key, sizeof key, "c04:%s", fam);
    uint8_t *kb = PAGE + PG - ksz;            /* buffer ends exactly at the page end (next page is PROT_NONE) */
    uint8_t *canary = kb - 16;
    memset(PAGE, 0xC7, (size_t)PG);
    env_clear_log(); E.keyfill = (uint8_t)(coin * 3 + 1);
    protect_on = protect; armed = 1;
    if (sigsetjmp(JB, 1)) { armed = 0; protect_on = 0; res_viol(r, "c04:touch-after-kdf", rep, "the library accessed the key buffer after the KDF returned"); return 1; }
    polyseed_keygen(s, (polyseed_coin)coin, ksz, kb);
    armed = 0; protect_on = 0;
    if (protected_now) { mprotect(PAGE, (size_t)PG, PROT_READ | PROT_WRITE); protected_now = 0; }
    r->calls++;
    uint8_t pw[32], salt[32]; ref_keygen_pw(ref, pw); ref_keygen_salt(ref, coin, salt);
    const struct kdfcall *k = &E.kdf;
    if (E.n_kdf != 1) { res_viol(r, key, rep, "KDF called %lu times", E.n_kdf); return 1; }
    if (strcmp(E.calls, "K")) { res_viol(r, key, rep, "dependency calls during keygen: %s (expected only the KDF)", E.calls); return 1; }
    if (k->key != kb || k->keylen != ksz) { res_viol(r, key, rep, "key pointer/length not passed through (%p/%zu, expected %p/%zu)", (void *)k->key, k->keylen, (void *)kb, ksz); return 1; }
    if (k->pwlen != 32 || memcmp(k->pw, pw, 32)) { res_viol(r, key, rep, "password: length %zu, bytes %s", k->pwlen, memcmp(k->pw, pw, 32) ? "differ from secret||zero padding" : "ok"); return 1; }
    if (k->saltlen != 32 || memcmp(k->salt, salt, 32)) { char h1[65], h2[65]; hex(k->salt, 32, h1); hex(salt, 32, h2); res_viol(r, key, rep, "salt: length %zu, %s expected %s", k->saltlen, h1, h2); return 1; }
    if (k->iters != 10000) { res_viol(r, key, rep, "iterations %llu", (unsigned long long)k->iters); return 1; }
    for (size_t i = 0; i < ksz; i++) if (kb[i] != (uint8_t)(E.keyfill + i)) { res_viol(r, key, rep, "key byte %zu changed after the KDF wrote it", i); return 1; }
    for (int i = 0; i < 16; i++) if (canary[i] != 0xC7) { res_viol(r, key, rep, "bytes before the key buffer were written"); return 1; }
    rseed inv; unsigned ci;
    if (!ref_keygen_inverse(k->pw, k->salt, &inv, &ci) || ci != coin || !rseed_eq(&inv, ref)) { res_viol(r, key, rep, "KDF inputs do not map back to (secret, coin, birthday, features)"); return 1; }
    r->validated++; r->cls[0]++; if (protect) r->cls[1]++;
    r->digest ^= mix64(coin * 1024 + ref->birthday, k->salt[20] + k->salt[24] * 256 + k->pw[0] * 65536);
    return 0;
}
static rseed SEC[4]; static int SLICE = 1;
static void work(long lo, long hi, struct res *r, void *arg) {
    (void)arg;
    for (long x = lo; x < hi; x++) {
        if ((x & 255) == 0 && past_deadline()) { r->timed_out = 1; return; }
        if (x % SLICE) continue;
        /* x enumerates (secret, features, birthday); all coins inside */
        unsigned bd = (unsigned)(x % 1024); long y = x / 1024;
        unsigned fi = (unsigned)(y % 16); int si = (int)(y / 16);
        unsigned f = (fi & 7) | ((fi & 8) ? 16 : 0);
        rseed s = SEC[si]; s.birthday = bd; s.features = f;
        polyseed_data *d = seed_from_ref(&s); r->calls++;
        char rep[160], h[40]; hex(s.secret, 19, h);
        if (!d) { sprintf(rep, "case %s %u %u 0 32", h, bd, f); res_viol(r, "c04:setup", rep, "cannot load seed"); continue; }
        for (unsigned coin = 0; coin < 2048; coin++) {
            r->cases++;
            size_t ksz = KS[(coin + bd) % 7 == 0 ? (coin / 7) % 7 : 0];
            int protect = ((coin ^ bd) & 15) == 0;
            sprintf(rep, "case %s %u %u %u %zu", h, bd, f, coin, ksz);
            extern char *G_cur; if (G_cur) strcpy(G_cur, rep);
            keygen_case(d, &s, coin, ksz, protect, r, rep, "args");
        }
        polyseed_free(d);
    }
    if (r->nsample < 1 && lo < hi) res_sample(r, "keygen for all 2048 coins of seed birthday=%ld features-index=%ld: password/salt/iterations/lengths/pointers compared", lo % 1024, (lo / 1024) % 16);
}
/* path independence: the same abstract seed reached through load, create(+crypt), decode from every language, crypt twice */
static void work_path(long lo, long hi, struct res *r, void *arg) {
    (void)arg;
    E.alloc_recycle = 1;      /* every new block starts with what the last released block of its size held (here: a wiped seed and whatever was written after the wipe) */
    for (long x = lo; x < hi; x++) {
        uint64_t ps = 0x9A7 + (uint64_t)x * 31 + (uint64_t)G_seed;
        rseed s; for (int i = 0; i < 19; i++) s.secret[i] = (uint8_t)prng(&ps); s.secret[18] &= 0x3F; s.birthday = (x % 3 == 0) ? 512 + (prng(&ps) & 511) : (prng(&ps) & 1023); s.features = prng(&ps) & 23;
        if (x % 16 == 1) s.birthday = 0; else if (x % 16 == 9) s.birthday = 1023;      /* with the clock shift below: the first month after the range, and the last one of a later range */
        unsigned coin = (unsigned)(prng(&ps) & 2047);
        extern uint64_t E_create_clock_shift;
        uint64_t shift = (x & 3) == 1 ? 1024 * R_STEP : (x & 3) == 2 ? 2 * 1024 * R_STEP : (x & 7) == 3 ? (uint64_t)(3 + x % 5) * 1024 * R_STEP : 0;
        char rep[200], h[40]; hex(s.secret, 19, h); sprintf(rep, "path %ld", x); (void)h;
        polyseed_data *d0 = seed_from_ref(&s); if (!d0) { res_viol(r, "c04:setup", rep, "load failed"); continue; }
        r->cases++;
        int bad = keygen_case(d0, &s, coin, 32, 0, r, rep, "path-load");
        /* the creation path also under clocks after the documented range: exactly the first month past it (index 1024 -> 0), one or two
         * whole ranges later (the second is more than 2^32 seconds after the epoch), and the last month of the range */
        E_create_clock_shift = shift;
        polyseed_data *d1 = seed_via_create(&s);
        E_create_clock_shift = 0;
        if (d1) { r->cases++; bad |= keygen_case(d1, &s, coin, 32, 0, r, rep, "path-create"); polyseed_free(d1); }
        for (int li = 0; li < R_NLANG && !bad; li++) {
            polyseed_str ph; polyseed_encode(d0, polyseed_get_lang(li), (polyseed_coin)coin, ph);
            polyseed_data *d2 = NULL; int st = polyseed_decode_explicit(ph, (polyseed_coin)coin, polyseed_get_lang(li), &d2); r->calls += 2;
            if (st != POLYSEED_OK) { res_viol(r, "c04:path-decode-status", rep, "decode failed %d", st); bad = 1; break; }
            r->cases++; bad |= keygen_case(d2, &s, coin, 32, 0, r, rep, "path-decode"); polyseed_free(d2);
        }
        /* crypt twice with the same password */
        for (int i = 0; i < 32; i++) E.mask[i] = (uint8_t)prng(&ps);
        /* (the first of the two under a refusing allocator: the password operation has no way to fail, so it must still be applied) */
        E.fail_at = E.alloc_seq; polyseed_crypt(d0, "p\xC3\xA4ss"); E.fail_at = -1; polyseed_crypt(d0, "pa\xCC\x88ss"); r->calls += 2;
        r->cases++; bad |= keygen_case(d0, &s, coin, 32, 0, r, rep, "path-crypt2");
        /* the password operation applied twice with other seeds' password operations in between (one of their passwords a prefix of
         * this one, and the empty password): what the KDF returns for a password depends on that password only */
        if (!bad) {
            rseed s2 = s; s2.secret[0] ^= 0x80; polyseed_data *other = seed_from_ref(&s2); uint8_t M[4][32]; for (int q = 0; q < 4; q++) for (int i = 0; i < 32; i++) M[q][i] = (uint8_t)prng(&ps);
            if (other) {
                static const char *OPW[3] = { "pass", "", "password1 and more" };
                memcpy(E.mask, M[0], 32); polyseed_crypt(other, OPW[x % 3]);
                memcpy(E.mask, M[1], 32); polyseed_crypt(d0, "password1");
                memcpy(E.mask, M[2], 32); polyseed_crypt(other, "something else");
                memcpy(E.mask, M[1], 32); polyseed_crypt(d0, "password1"); r->calls += 4;
                polyseed_free(other);
                r->cases++; bad |= keygen_case(d0, &s, coin, 32, 0, r, rep, "path-crypt-interleaved");
            }
        }
        /* encrypt, write the phrase down, restore it, decrypt: the restored and decrypted seed is the original */
        if (!bad) {
            E.mask[18] |= (uint8_t)(0x40 << (x & 1));
            polyseed_crypt(d0, "secret"); polyseed_str ph; int li = (int)(x % R_NLANG); polyseed_encode(d0, polyseed_get_lang(li), (polyseed_coin)coin, ph); polyseed_crypt(d0, "secret");
            polyseed_data *d3 = NULL; int st = polyseed_decode_explicit(ph, (polyseed_coin)coin, polyseed_get_lang(li), &d3); r->calls += 4;
            if (st != POLYSEED_OK) { res_viol(r, "c04:path-crypt-decode-status", rep, "phrase of an encrypted seed does not decode (%d)", st); bad = 1; }
            else { polyseed_crypt(d3, "secret"); r->cases++; bad |= keygen_case(d3, &s, coin, 32, 0, r, rep, "path-crypt-phrase-decrypt"); polyseed_free(d3); }
        }
        /* the enabled mask is library state, not seed state: keygen of a held seed does not depend on it */
        if (!bad) { polyseed_data *d5 = seed_from_ref(&s); if (d5) { polyseed_enable_features(0); r->cases++; bad |= keygen_case(d5, &s, coin, 32, 0, r, rep, "path-mask-changed"); polyseed_enable_features(0xFFFFFFF8u | 2); bad |= keygen_case(d5, &s, coin, 32, 0, r, rep, "path-mask-changed"); polyseed_enable_features(7); polyseed_free(d5); } }
        /* create with argument bits above the three feature bits set: they are not part of the seed */
        if (!bad && !(s.features & 16)) {
            uint8_t kt[32]; uint64_t kc = E.clock[0]; memcpy(kt, E.tape[0], 32);
            memset(E.tape[0], 0, 32); memcpy(E.tape[0], s.secret, 19); E.clock[0] = ref_birthday_time(s.birthday) + 3;
            static const unsigned HI[] = { 0x100, 0xFFFFFFF8u, 0x20, 0x8, 0x10 };
            polyseed_data *d4 = NULL; unsigned arg = (s.features & 7) | HI[x % 5];
            if (polyseed_create(arg, &d4) == POLYSEED_OK) { r->cases++; bad |= keygen_case(d4, &s, coin, 32, 0, r, rep, "path-create-high-argument-bits"); polyseed_free(d4); }
            else { res_viol(r, "c04:path-create-high", rep, "create(%#x) failed although the three low bits are enabled", arg); bad = 1; }
            memcpy(E.tape[0], kt, 32); E.clock[0] = kc;
        }
        /* another dependency table injected while this seed is alive: the very next derivation goes through the new table's KDF */
        if (!bad) { inject(1); env_clear_log(); uint8_t kb2[32]; polyseed_keygen(d0, (polyseed_coin)coin, 32, kb2); r->calls++; r->cases++;
            uint8_t salt2[32]; ref_keygen_salt(&s, coin, salt2);
            if (E.n_kdf != 1 || E.kdf.table != 1 || E.kdf.saltlen != 32 || memcmp(E.kdf.salt, salt2, 32)) { res_viol(r, "c04:path-reinjected", rep, "after polyseed_inject of a second table with a seed alive, keygen made %lu KDF call(s), the last through table %c (expected exactly one through table B), salt %s", E.n_kdf, 'A' + E.kdf.table, E.kdf.saltlen == 32 && !memcmp(E.kdf.salt, salt2, 32) ? "ok" : "differs"); bad = 1; }
            inject(0); polyseed_enable_features(7); }
        polyseed_free(d0);
        if (!bad) r->cls[2]++;
    }
    if (r->nsample < 1) res_sample(r, "one abstract seed reached by load / create / decode in 10 languages / crypt twice (NFC then NFD spelling): identical KDF inputs");
}

int main(int argc, char **argv) {
    int a = common_args(argc, argv);
    ref_init(VERIF_ROOT); sec_mark_initial(); env_init(); inject(0);
    polyseed_enable_features(7);
    PG = sysconf(_SC_PAGESIZE);
    uint8_t *m = mmap(NULL, (size_t)PG * 2, PROT_READ | PROT_WRITE, MAP_PRIVATE | MAP_ANONYMOUS, -1, 0);
    PAGE = m; mprotect(m + PG, (size_t)PG, PROT_NONE);
    E_kdf_hook = hook;
    struct sigaction sa; memset(&sa, 0, sizeof sa); sa.sa_sigaction = on_segv; sa.sa_flags = SA_SIGINFO | SA_NODEFER; sigaction(SIGSEGV, &sa, NULL);
    struct res *r = calloc(1, sizeof *r);
    if (a + 1 < argc && !strcmp(argv[a], "big")) { extern size_t E_kdf_write_limit; E_kdf_write_limit = 64; static uint8_t kb[64]; static const size_t BIG[] = { (size_t)1 << 31, ((size_t)1 << 32) - 1, (size_t)1 << 32, ((size_t)1 << 32) + 32, (size_t)1 << 40, ((size_t)-1) / 2 + 1, (size_t)-1 };
        rseed s0; memset(&s0, 0, sizeof s0); s0.birthday = 500; s0.features = 18; polyseed_data *d = seed_from_ref(&s0); size_t want = BIG[atoi(argv[a + 1]) % 7]; env_clear_log(); polyseed_keygen(d, 77, want, kb);
        printf("key_size %zu -> KDF key length %zu\n", want, E.kdf.keylen); if (E.kdf.keylen != want || E.kdf.key != kb) { printf("REPRODUCED c04:key-length\n"); return 1; } return 0; }
    if (a + 1 < argc && !strcmp(argv[a], "path")) { long x = atol(argv[a + 1]); work_path(x, x + 1, r, NULL); for (int i = 0; i < r->nviol; i++) printf("REPRODUCED %s: %s\n", r->v[i].key, r->v[i].msg); return r->nviol ? 1 : 0; }
    if (a < argc && !strcmp(argv[a], "case")) {   /* case <secret> <birthday> <features> <coin> <keysize> */
        rseed s; parse_rseed(argv[a + 1], atoi(argv[a + 2]), atoi(argv[a + 3]), &s);
        unsigned coin = atoi(argv[a + 4]); size_t ksz = (size_t)atol(argv[a + 5]);
        polyseed_data *d = seed_from_ref(&s); if (!d) { printf("cannot load\n"); return 1; }
        keygen_case(d, &s, coin, ksz, 1, r, "", "args");
        char h[130]; hex(E.kdf.salt, 32, h); printf("pwlen=%zu saltlen=%zu iters=%llu keylen=%zu salt=%s\n", E.kdf.pwlen, E.kdf.saltlen, (unsigned long long)E.kdf.iters, E.kdf.keylen, h);
        { extern uint64_t E_create_clock_shift; if (a + 6 < argc) E_create_clock_shift = strtoull(argv[a + 6], NULL, 10); }
        polyseed_data *d1 = seed_via_create(&s); if (d1) keygen_case(d1, &s, coin, ksz, 0, r, "", "path-create");
        for (int i = 0; i < r->nviol; i++) printf("REPRODUCED %s: %s\n", r->v[i].key, r->v[i].msg);
        return r->nviol ? 1 : 0;
    }
    memset(&SEC[2], 0, sizeof(rseed));
    memset(SEC[1].secret, 0xFF, 19); SEC[1].secret[18] = 0x3F;
    for (int i = 0; i < 19; i++) SEC[0].secret[i] = (uint8_t)(0x9D + 0x3B * i); SEC[0].secret[18] &= 0x3F;
    uint64_t ps = 77 + (uint64_t)G_seed; for (int k = 3; k < 4; k++) { for (int i = 0; i < 19; i++) SEC[k].secret[i] = (uint8_t)prng(&ps); SEC[k].secret[18] &= 0x3F; }
    if (a + 1 < argc && !strcmp(argv[a], "--slice")) SLICE = atoi(argv[a + 1]);
    out_begin();
    /* quick: 2 secrets x 4 feature values {0,7,16,23}... realised as: all 16 loadable feature values for secret 1, thorough: 4 secrets */
    int nsec = G_thorough ? 4 : 1;
    par_run((long)nsec * 16 * 1024, work, NULL, r);
    /* key lengths that do not fit 32 bits (and the largest size_t): the length reaches the KDF unaltered; the stub writes only the first 64 bytes */
    { extern size_t E_kdf_write_limit; E_kdf_write_limit = 64; static uint8_t kb[64];
      static const size_t BIG[] = { (size_t)1 << 31, ((size_t)1 << 32) - 1, (size_t)1 << 32, ((size_t)1 << 32) + 32, (size_t)1 << 40, ((size_t)-1) / 2 + 1, (size_t)-1 };
      rseed s0 = SEC[0]; s0.birthday = 500; s0.features = 18; polyseed_data *d = seed_from_ref(&s0);
      for (unsigned i = 0; d && i < sizeof BIG / sizeof *BIG; i++) { env_clear_log(); polyseed_keygen(d, 77, BIG[i], kb); r->cases++; r->calls++;
          char rep[80]; snprintf(rep, sizeof rep, "big %u", i);
          uint8_t salt[32]; ref_keygen_salt(&s0, 77, salt);
          if (E.n_kdf != 1 || E.kdf.keylen != BIG[i] || E.kdf.key != kb || E.kdf.saltlen != 32 || memcmp(E.kdf.salt, salt, 32) || E.kdf.pwlen != 32 || E.kdf.iters != 10000) res_viol(r, "c04:key-length", rep, "keygen with key_size %zu: the KDF was called %lu times with key length %zu (pointer %s), password length %zu, salt length %zu, %llu iterations", BIG[i], E.n_kdf, E.kdf.keylen, E.kdf.key == kb ? "passed through" : "changed", E.kdf.pwlen, E.kdf.saltlen, (unsigned long long)E.kdf.iters);
          else { r->validated++; r->cls[0]++; } }
      if (d) polyseed_free(d); E_kdf_write_limit = 0; }
    out_part("all coins x all birthdays x all 16 loadable feature values x secrets", r, CLS, "reserved feature bit 8 cannot be held by a seed; key lengths up to the largest size_t");
    memset(r, 0, sizeof *r); par_run(G_thorough ? 20000 : 3000, work_path, NULL, r);
    out_part("path independence (load, create, decode x10 languages, crypt twice)", r, CLS, "seeds from a PRNG (additional; E1 runs keygen in every reachable state)");
    out_kv_int("secrets", nsec);
    out_end();
    return 0;
}
