/* E1: explicit-state breadth-first search over API histories, on the real library.
 * A state is represented by the shortest history reaching it and rebuilt by replay on a reset
 * library (writable sections restored to their start-up image, environment re-initialised, all
 * blocks released).  States are de-duplicated on a canonical key of everything that can influence
 * the future: the library's writable sections, the raw bytes of every live seed block, and the
 * environment (injected table, armed allocation fault).  Every transition is compared with the
 * reference model; in every new state an observation battery is run and compared with the model.
 * Profiles: api (C13, C15), feat (C10), crypt (C12), inject (C18). */
#include "h.h"
#include <unistd.h>
#include <sys/wait.h>
#include <sys/prctl.h>
#include <signal.h>
#include <errno.h>

enum kind { O_CREATE, O_FREE, O_FREENULL, O_CRYPT, O_RELOAD, O_RECODE, O_ENABLE, O_INJECT, O_ARM, O_BADCALL };
struct op { int kind; int a, b, c; char name[48]; };
#define MAXOPS 200
static struct op OPS[MAXOPS]; static int NOPS;
#define NSLOT_MAX 3
static int NSLOT = 2;
static const char *PROFILE = "api";
static int P_API, P_FEAT, P_CRYPT, P_INJECT, P_TABLES;

/* ---- argument domains */
static const char *PASSWORDS[12]; static int NPW;
static char LONGPW[420];
static const unsigned ENABLE_ARGS[] = { 0, 1, 2, 3, 4, 5, 6, 7, 8, 15, 16, 23, 0xFFFFFFF8u, 0xFFFFFFFFu };
struct recv { int li; unsigned coin; int autodetect; };
static struct recv RECODES[8]; static int NREC;

/* ---- model state */
struct mstate { int live[NSLOT_MAX]; rseed s[NSLOT_MAX]; unsigned mask; int table; int nullpat; int armed; };
static polyseed_data *SLOT[NSLOT_MAX];

static void tape_for(int table, int variant, uint8_t out[32]) { for (int i = 0; i < 32; i++) out[i] = (uint8_t)(0x3D + 0x61 * table + 0x1F * variant + (0x35 + 2 * variant) * i); }
static uint64_t clock_for(int table, int variant) {
    if (variant == 9) return R_EPOCH + (uint64_t)1024 * R_STEP + (table ? R_STEP - 1 : 0);   /* the first month after the documented range (its first / last second): the month index wraps to 0, nothing else may change */
    if (variant == 10) return R_EPOCH + (uint64_t)(2 * 1024 + 609 + table) * R_STEP + 77;      /* more than 2^32 seconds after the epoch */
    return R_EPOCH + (uint64_t)(17 + 400 * table + 101 * variant) * R_STEP + 12345; }
/* the KDF stub derives the mask from the password bytes it is given, so equal masks <=> equal normalised passwords */
static void mask_for_pw(const uint8_t *pw, size_t n, uint8_t m[32]) { uint64_t h = 0x1234567; for (size_t i = 0; i < n; i++) h = mix64(h, pw[i]); h = mix64(h, n); for (int i = 0; i < 32; i++) { h = mix64(h, (uint64_t)i); m[i] = (uint8_t)(h >> 24); } }
extern void (*E_kdf_hook)(uint8_t *key, size_t keylen);
extern int E_kdf_table;
static void kdf_hook(uint8_t *key, size_t keylen) { if (E.kdf.saltlen == 16) { uint8_t m[32]; mask_for_pw(E.kdf.pw, E.kdf.pwlen < sizeof E.kdf.pw ? E.kdf.pwlen : sizeof E.kdf.pw, m); for (size_t i = 0; i < keylen; i++) key[i] = (uint8_t)(m[i % 32] ^ (E_kdf_table ? 0x5A : 0)); } }

static int nlive(const struct mstate *m) { int n = 0; for (int i = 0; i < NSLOT; i++) n += m->live[i]; return n; }
static int popcount3(unsigned v) { return (v & 1) + ((v >> 1) & 1) + ((v >> 2) & 1); }

static int enabled(const struct op *o, const struct mstate *m) {
    switch (o->kind) {
    case O_CREATE: return !m->live[o->a];
    case O_FREE: case O_CRYPT: return m->live[o->a];
    case O_RELOAD: case O_RECODE: return m->live[o->a] && !m->live[o->b];
    case O_INJECT: return (o->a == m->table && o->b == m->nullpat) || nlive(m) == 0 || (o->b & 6) == (m->nullpat & 6);   /* allocator may change only with no live seed */
    case O_ARM: return !m->armed;
    default: return 1;
    }
}

/* ---- violations of one step are collected here: the first one of each category (key up to the second colon), so
 * that e.g. a leak is not masked by a status mismatch in the same call */
#define MAXSTEPV 6
static char VKEYS[MAXSTEPV][160], VMSGS[MAXSTEPV][600]; static int VBAD;
#define VKEY VKEYS[0]
#define VMSG VMSGS[0]
static void badv_add(const char *key, const char *msg) {
    const char *c2 = strchr(key, ':'); size_t cat = c2 ? (size_t)(c2 - key) : strlen(key);
    for (int i = 0; i < VBAD; i++) if (!strncmp(VKEYS[i], key, cat) && VKEYS[i][cat] == ':') return;
    if (VBAD >= MAXSTEPV) return;
    snprintf(VKEYS[VBAD], sizeof VKEYS[0], "%s", key); snprintf(VMSGS[VBAD], sizeof VMSGS[0], "%s", msg); VBAD++;
}
#define BADV(keyfmt, ...) do { char msg_[600]; snprintf(msg_, sizeof msg_, __VA_ARGS__); badv_add(keyfmt, msg_); } while (0)

static void reset_all(struct mstate *m) {
    for (int i = 0; i < NSLOT_MAX; i++) SLOT[i] = NULL;
    env_init();                      /* releases every block, clears logs */
    sec_reset_initial();
    E_kdf_hook = kdf_hook;
    inject(0);
    memset(m, 0, sizeof *m);
}

static uint64_t state_key(const struct mstate *m) {
    uint64_t h = sec_hash(0x51);
    for (int i = 0; i < NSLOT; i++) {
        if (!SLOT[i]) { h = mix64(h, 0xE0 + (uint64_t)i); continue; }
        size_t n = 0; for (int j = 0; j < E.nlive; j++) if (E.live[j].p == SLOT[i]) n = E.live[j].n;
        const uint8_t *p = (const uint8_t *)SLOT[i];
        h = mix64(h, n); for (size_t j = 0; j < n; j++) h = mix64(h, p[j]);
    }
    h = mix64(h, (uint64_t)m->armed); h = mix64(h, (uint64_t)(m->table * 8 + m->nullpat));
    /* the key is the PAIR (implementation state, model state): two histories that reach the same
     * implementation state but different model states are kept apart, so that the observation battery
     * runs against both model states - an implementation that forgets something the model remembers
     * (or vice versa) cannot hide behind state merging.  For a conforming implementation the number of
     * pairs equals the number of implementation states. */
    h = mix64(h, (uint64_t)m->mask);
    for (int i = 0; i < NSLOT; i++) { h = mix64(h, (uint64_t)m->live[i]); if (m->live[i]) { for (int j = 0; j < 19; j++) h = mix64(h, m->s[i].secret[j]); h = mix64(h, m->s[i].birthday * 32 + m->s[i].features); } }
    return h ? h : 1;
}

/* ledger / free-discipline oracle, after every call (C15); dependency-source oracle (C18) */
static void ledger_oracle(const struct mstate *m, const char *opname) {
    char k[160];
    if ((m->nullpat & 2) ? E.n_alloc : E.n_libc_malloc) { snprintf(k, sizeof k, "c18:alloc-source:%s", opname); BADV(k, "%s allocated through %s although the injected table says otherwise (injected calls %lu, libc calls %lu, nullpat %d)", opname, (m->nullpat & 2) ? "the previously injected allocator" : "libc malloc", E.n_alloc, E.n_libc_malloc, m->nullpat); }
    if ((m->nullpat & 4) ? E.n_free : E.n_libc_free) { snprintf(k, sizeof k, "c18:free-source:%s", opname); BADV(k, "%s released memory through %s although the injected table says otherwise (injected calls %lu, libc calls %lu, nullpat %d)", opname, (m->nullpat & 4) ? "the previously injected free" : "libc free", E.n_free, E.n_libc_free, m->nullpat); }
    if ((m->nullpat & 1) ? E.n_time : E.n_libc_time) { snprintf(k, sizeof k, "c18:time-source:%s", opname); BADV(k, "%s read the clock through the wrong source (injected calls %lu, libc calls %lu, nullpat %d)", opname, E.n_time, E.n_libc_time, m->nullpat); }
    { int o = 1 - m->table; if (E.n_alloc_tab[o] || E.n_free_tab[o] || E.n_mz_tab[o]) { snprintf(k, sizeof k, "c18:stale-table:%s", opname); BADV(k, "%s used functions of the previously injected table %c (alloc %lu, free %lu, memzero %lu calls) although table %c is injected now", opname, 'A' + o, E.n_alloc_tab[o], E.n_free_tab[o], E.n_mz_tab[o], 'A' + m->table); } }
    if (ledger_live() != nlive(m)) { snprintf(k, sizeof k, "c15:ledger:%s", opname); BADV(k, "after %s: %d blocks live but %d seeds live", opname, ledger_live(), nlive(m)); }
    if (E.err_foreign_free) { snprintf(k, sizeof k, "c15:foreign-free:%s", opname); BADV(k, "%s passed an unknown or already freed pointer to free", opname); }
    if (E.err_free_null) { snprintf(k, sizeof k, "c15:free-null:%s", opname); BADV(k, "%s called free(NULL)", opname); }
    if (E.err_free_unwiped && !E.err_free_dirty) { snprintf(k, sizeof k, "c18:wipe-source:%s", opname); BADV(k, "%s released a block that holds only zero bytes although the injected wipe function was never applied to it: the library cleared it by other means", opname); }
    if (E.err_free_dirty || E.err_free_unwiped) { snprintf(k, sizeof k, "c16:free-unwiped:%s", opname); BADV(k, "%s released a seed block that was not wiped through the injected memzero (dirty=%d unwiped=%d)", opname, E.err_free_dirty, E.err_free_unwiped); }
}

/* apply one operation to implementation and model; record the first disagreement */
static int LAST_STATUS;
static void apply(const struct op *o, struct mstate *m) {
    char k[160];
    env_clear_log();
    E.fail_at = m->armed ? 0 : -1;
    int alloc_expected = 0;       /* does the model say an allocation request is made? */
    int st = -1, want = -1;
    LAST_STATUS = -1;
    switch (o->kind) {
    case O_CREATE: {
        int variant = o->c;
        /* variant 11: a clock that reads differently every time it is asked (first the reading of variant 0, then two months later, then the error
         * value, then a pre-epoch value).  How often create consults the clock is not prescribed: the birthday must be that of a value returned. */
        int seqclock = (variant == 11 && m->table == 0 && !(m->nullpat & 1)); if (variant == 11) variant = 0;
        tape_for(m->table, variant, E.tape[m->table]); E.clock[m->table] = clock_for(m->table, variant);
        if (seqclock) { E.clock_seq[0] = E.clock[0]; E.clock_seq[1] = E.clock[0] + 2 * R_STEP; E.clock_seq[2] = UINT64_MAX; E.clock_seq[3] = R_EPOCH - 1; E.clock_seq_n = 4; E.clock_seq_i = 0; }
        polyseed_data *d = (polyseed_data *)(uintptr_t)0xDEAD;
        st = polyseed_create((unsigned)o->b, &d);
        E.clock_seq_n = 0;
        unsigned f = (unsigned)o->b & 7;
        if (!ref_supported(f, m->mask)) want = ST_UNSUPPORTED;
        else { alloc_expected = 1; want = m->armed ? ST_MEMORY : ST_OK; }
        if (st != want) { snprintf(k, sizeof k, "c13:status:%s", o->name); BADV(k, "%s returned %d, model %d", o->name, st, want); }
        if (st == POLYSEED_OK) {
            SLOT[o->a] = d; m->live[o->a] = 1;
            rseed *r = &m->s[o->a]; memset(r, 0, sizeof *r);
            memcpy(r->secret, E.tape[m->table], 19); r->secret[18] &= 0x3F;
            uint64_t t = (m->nullpat & 1) ? 1700000000ULL : E.clock[m->table];
            r->birthday = ref_birthday_index(t); r->features = f;
            if (seqclock) { unsigned bi = ref_birthday_index(polyseed_get_birthday(d)); int okb = 0; uint64_t rd[4] = { E.clock[0], E.clock[0] + 2 * R_STEP, UINT64_MAX, R_EPOCH - 1 };
                for (unsigned long q = 0; q < E.n_time && q < 4; q++) if (bi == ref_birthday_index(rd[q])) okb = 1; if (E.n_time > 4) okb = 1;
                if (okb) r->birthday = bi; else { snprintf(k, sizeof k, "c13:clock-readings:%s", o->name); BADV(k, "%s: the clock was read %lu times; the birthday (month %u) is that of none of the values it returned", o->name, E.n_time, bi); } }
            /* C18: sources */
            int tsrc = (m->nullpat & 1) ? (E.n_libc_time >= 1 && E.n_time == 0) : (E.n_time >= 1 && E.n_libc_time == 0);
            int asrc = (m->nullpat & 2) ? (E.n_libc_malloc == 1 && E.n_alloc == 0) : (E.n_alloc == 1 && E.n_libc_malloc == 0);
            if (!tsrc) { snprintf(k, sizeof k, "c18:time-source:%s", o->name); BADV(k, "%s: time source calls injected=%lu libc=%lu (table %d, nullpat %d)", o->name, E.n_time, E.n_libc_time, m->table, m->nullpat); }
            if (!asrc) { snprintf(k, sizeof k, "c18:alloc-source:%s", o->name); BADV(k, "%s: allocation calls injected=%lu libc=%lu", o->name, E.n_alloc, E.n_libc_malloc); }
            if (E.n_rand != 1 || E.last_rand_n != 19 || (char *)E.last_rand_p < (char *)d || (char *)E.last_rand_p + 19 > (char *)d + E.last_alloc_n) { snprintf(k, sizeof k, "c18:rand:%s", o->name); BADV(k, "%s: random source called %lu times, n=%zu, destination %s the seed block", o->name, E.n_rand, E.last_rand_n, "outside or not inside"); }
        } else if (st == POLYSEED_ERR_UNSUPPORTED && (E.n_alloc || E.n_libc_malloc || E.n_rand)) { snprintf(k, sizeof k, "c13:work-before-refusal:%s", o->name); BADV(k, "%s refused but called alloc/rand first", o->name); }
    } break;
    case O_FREE:
        polyseed_free(SLOT[o->a]); SLOT[o->a] = NULL; m->live[o->a] = 0; st = want = 0;
        { int fsrc = (m->nullpat & 4) ? (E.n_libc_free == 1 && E.n_free == 0) : (E.n_free == 1 && E.n_libc_free == 0);
          if (!fsrc) { snprintf(k, sizeof k, "c18:free-source:%s", o->name); BADV(k, "%s: free calls injected=%lu libc=%lu (nullpat %d)", o->name, E.n_free, E.n_libc_free, m->nullpat); } }
        break;
    case O_FREENULL:
        polyseed_free(NULL); st = want = 0;
        if (E.ncalls) { snprintf(k, sizeof k, "c15:free-null-calls"); BADV(k, "polyseed_free(NULL) made dependency calls: %s", E.calls); }
        break;
    case O_CRYPT: {
        const char *pw = PASSWORDS[o->b];
        char copy[700]; strcpy(copy, pw);
        polyseed_crypt(SLOT[o->a], copy); st = want = 0;
        char nf[PSTR + 1]; size_t nl;
        { int na = 0; for (const char *q = pw; *q; q++) if ((uint8_t)*q & 0x80) na = 1; if (na) nl = u_nfkd(pw, nf, CAP); else { nl = strnlen(pw, CAP); memcpy(nf, pw, nl); nf[nl] = 0; } }
        uint8_t mask[32]; mask_for_pw((const uint8_t *)nf, nl, mask);
        if (m->table == 1) for (int i = 0; i < 32; i++) mask[i] ^= 0x5A;      /* the KDF injected with table B is a different function */
        ref_crypt(&m->s[o->a], mask);
        static const uint8_t SALT[16] = { 'P','O','L','Y','S','E','E','D',' ','m','a','s','k',0,0xFF,0xFF };
        if (strcmp(copy, pw)) { BADV("c14:password-modified", "crypt modified its password argument"); }
        if (E.n_kdf != 1 || E.kdf.table != m->table) { snprintf(k, sizeof k, "c18:kdf-source:%s", o->name); BADV(k, "%s: the key-derivation function of the table in force (table %c) was called %s (calls: %lu, table of the call: %c)", o->name, 'A' + m->table, E.n_kdf == 1 ? "but another table's function ran" : "not exactly once", E.n_kdf, 'A' + E.kdf.table); }
        if (E.n_kdf != 1 || E.kdf.pwlen != nl || memcmp(E.kdf.pw, nf, nl) || E.kdf.saltlen != 16 || memcmp(E.kdf.salt, SALT, 16) || E.kdf.iters != 10000 || E.kdf.keylen != 32) {
            snprintf(k, sizeof k, "c12:kdf-args:%s", o->name); BADV(k, "%s: KDF calls=%lu pwlen=%zu (expected %zu) saltlen=%zu iters=%llu keylen=%zu or bytes differ", o->name, E.n_kdf, E.kdf.pwlen, nl, E.kdf.saltlen, (unsigned long long)E.kdf.iters, E.kdf.keylen); }
    } break;
    case O_RELOAD: {
        uint8_t st_[32], exp[32]; polyseed_store(SLOT[o->a], st_); ref_storage(&m->s[o->a], exp);
        if (memcmp(st_, exp, 32)) { snprintf(k, sizeof k, "c13:store:%s", o->name); BADV(k, "%s: store differs from the model", o->name); }
        polyseed_data *d = NULL; st = polyseed_load(exp, &d);
        alloc_expected = 1;
        rseed r; want = m->armed ? ST_MEMORY : ref_load(exp, m->mask, &r);
        if (st != want) { snprintf(k, sizeof k, "c13:status:%s", o->name); BADV(k, "%s returned %d, model %d", o->name, st, want); }
        if (st == POLYSEED_OK) { SLOT[o->b] = d; m->live[o->b] = 1; m->s[o->b] = m->s[o->a]; }
    } break;
    case O_RECODE: {
        const struct recv *v = &RECODES[o->c];
        polyseed_str ph; char exp[2048];
        size_t n = polyseed_encode(SLOT[o->a], polyseed_get_lang(v->li), (polyseed_coin)v->coin, ph);
        size_t en = ref_phrase(&m->s[o->a], v->li, v->coin, exp, 0);
        if (n != en || memcmp(ph, exp, en + 1)) { snprintf(k, sizeof k, "c13:phrase:%s", o->name); BADV(k, "%s: encoded phrase differs from the model", o->name); }
        polyseed_data *d = NULL; const polyseed_lang *lo = NULL; rseed r; int rl = -1;
        /* which status does the model predict? allocation is requested only after the checksum passed */
        int pre = ref_decode(exp, v->coin, v->autodetect ? -1 : v->li, m->mask, 0, CAP, &r, &rl);
        alloc_expected = (pre == ST_OK || pre == ST_UNSUPPORTED);
        want = (alloc_expected && m->armed) ? ST_MEMORY : pre;
        E.fail_at = m->armed ? E.alloc_seq : -1;     /* encode does not allocate, but be exact */
        st = v->autodetect ? polyseed_decode(exp, (polyseed_coin)v->coin, &lo, &d) : polyseed_decode_explicit(exp, (polyseed_coin)v->coin, polyseed_get_lang(v->li), &d);
        if (st != want) { snprintf(k, sizeof k, "c13:status:%s", o->name); BADV(k, "%s returned %d, model %d", o->name, st, want); }
        if (st == POLYSEED_OK) {
            SLOT[o->b] = d; m->live[o->b] = 1; m->s[o->b] = r;
            if (!rseed_eq(&r, &m->s[o->a])) BADV("c13:model-internal", "reference decode of reference phrase is not the identity");
            if (v->autodetect && lo != polyseed_get_lang(rl)) { snprintf(k, sizeof k, "c13:lang:%s", o->name); BADV(k, "%s: detected language %d, model %d", o->name, lang_index(lo), rl); }
        }
    } break;
    case O_ENABLE: {
        unsigned arg = ENABLE_ARGS[o->a];
        st = polyseed_enable_features(arg); want = popcount3(arg);
        m->mask = arg & 7;
        if (st != want) { snprintf(k, sizeof k, "c10:enable-return:%s", o->name); BADV(k, "%s returned %d, expected %d", o->name, st, want); }
    } break;
    case O_INJECT: {
        if (o->c == 1) {    /* re-entrancy: the allocator callback of a create installs the other table (an application finishing its set-up lazily);
                             * every dependency call made after that moment goes through the new table.  Which calls a create makes after allocating is
                             * not prescribed, so the only oracles are "nothing of the old table is called afterwards", the status and the ledger; the seed
                             * is released at once (through the new table). */
            if (m->nullpat) { st = want = 0; break; }          /* only from a fully injected table (the callback must exist) */
            int other = 1 - m->table; E_reinject_from_alloc = other;
            polyseed_data *t = NULL; alloc_expected = 1; st = polyseed_create(0, &t); want = m->armed ? ST_MEMORY : ST_OK;
            if (E_reinject_from_alloc >= 0) { E_reinject_from_alloc = -1; BADV("c18:reentrant-injection:no-callback", "%s: create never called the injected allocator", o->name); }
            else { m->table = other; m->nullpat = 0; }
            if (st == POLYSEED_OK) polyseed_free(t);
            if (E_stale_calls) { snprintf(k, sizeof k, "c18:stale-after-reentrant-injection:%s", o->name); BADV(k, "%s: %lu calls went to functions of the table that had already been replaced from inside the allocator callback", o->name, E_stale_calls); }
            break;
        }
        polyseed_dependency d; deps_variant(o->a, o->b & 1, o->b & 2, o->b & 4, &d);
        polyseed_inject(&d); memset(&d, 0xEE, sizeof d);      /* the caller's struct is gone */
        m->table = o->a; m->nullpat = o->b; st = want = 0;
    } break;
    case O_BADCALL: {     /* calls that must fail and change nothing */
        static rseed fixed; static int init; static uint8_t img[32]; static char phr[2048];
        if (!init) { init = 1; for (int i = 0; i < 19; i++) fixed.secret[i] = (uint8_t)(0x4D + 9 * i); fixed.secret[18] &= 0x3F; fixed.birthday = 77; fixed.features = 0; ref_storage(&fixed, img); ref_phrase(&fixed, 0, 4, phr, 0); }
        polyseed_data *d = (polyseed_data *)(uintptr_t)0xBEEF; const polyseed_lang *lo = NULL; uint8_t b[32]; memcpy(b, img, 32);
        switch (o->a) {
        case 0: b[30] ^= 1; alloc_expected = 1; st = polyseed_load(b, &d); want = m->armed ? ST_MEMORY : ST_CHECKSUM; break;
        case 1: b[3] ^= 0x20; alloc_expected = 1; st = polyseed_load(b, &d); want = m->armed ? ST_MEMORY : ST_FORMAT; break;
        case 2: st = polyseed_decode("xxx xxx", 0, &lo, &d); want = ST_NUM_WORDS; break;
        case 3: st = polyseed_decode_explicit("qq qq qq qq qq qq qq qq qq qq qq qq qq qq qq qq", 0, polyseed_get_lang(5), &d); want = ST_LANG; break;
        case 4: st = polyseed_decode(phr, 5, &lo, &d); want = ST_CHECKSUM; break;      /* right phrase, wrong coin */
        case 9: {           /* a valid English phrase typed with no-break and ideographic spaces: only the injected NFKD makes it readable, for both decoders */
            static char typed[2048]; static int have3;
            if (!have3) { have3 = 1; char en[2048]; ref_phrase(&fixed, 0, 0, en, 0); char *o2 = typed; int k = 0; for (const char *q = en; *q; q++) { if (*q == ' ') { const char *sp = (k++ & 1) ? "\xC2\xA0" : "\xE3\x80\x80"; strcpy(o2, sp); o2 += strlen(sp); } else *o2++ = *q; } *o2 = 0; }
            alloc_expected = 1;
            polyseed_data *da = (polyseed_data *)(uintptr_t)0xBEEF; int sa = polyseed_decode(typed, 0, &lo, &da); int wa = m->armed && E.alloc_seq > 0 ? ST_MEMORY : ref_decode(typed, 0, -1, m->mask, 0, CAP, NULL, NULL);
            if (sa == POLYSEED_OK) { uint8_t g[32]; polyseed_store(da, g); polyseed_free(da); if (memcmp(g, img, 32)) BADV("c13:typed-phrase:seed", "%s: automatic detection restored another seed", o->name); }
            if (!(m->armed && E.alloc_seq > 0)) { if (sa != wa) { snprintf(k, sizeof k, "c13:status:%s:auto", o->name); BADV(k, "%s through automatic detection returned %d, model %d", o->name, sa, wa); }
                st = polyseed_decode_explicit(typed, 0, polyseed_get_lang(0), &d); want = (m->armed && E.alloc_seq > 0) ? ST_MEMORY : ref_decode(typed, 0, 0, m->mask, 0, CAP, NULL, NULL);
                if (st == POLYSEED_OK) { uint8_t g[32]; polyseed_store(d, g); if (memcmp(g, img, 32)) BADV("c13:typed-phrase:seed", "%s: decode_explicit restored another seed", o->name); } }
            else { st = sa; want = wa; }
        } break;
        case 10: {          /* a Czech phrase (a language whose words carry no accents) with a combining caron typed into its first word: no list has that token */
            static char cz[2048]; static int have4;
            if (!have4) { have4 = 1; char p0[2048]; ref_phrase(&fixed, 6, 0, p0, 0); cz[0] = p0[0]; strcpy(cz + 1, "\xCC\x8C"); strcpy(cz + 3, p0 + 1); }
            polyseed_data *da = (polyseed_data *)(uintptr_t)0xBEEF; int sa = polyseed_decode(cz, 0, &lo, &da); int wa = ref_decode(cz, 0, -1, m->mask, 0, CAP, NULL, NULL);
            if (sa == POLYSEED_OK) polyseed_free(da);
            if (sa != wa) { snprintf(k, sizeof k, "c13:status:%s:auto", o->name); BADV(k, "%s through automatic detection returned %d, model %d", o->name, sa, wa); }
            st = polyseed_decode_explicit(cz, 0, polyseed_get_lang(6), &d); want = ref_decode(cz, 0, 6, m->mask, 0, CAP, NULL, NULL);
            if (want != ST_LANG || wa != ST_LANG) BADV("c13:model-internal", "accented Czech phrase: model says %d / %d", wa, want);
        } break;
        case 7: case 8: {   /* every single space is a boundary: a valid phrase with one space doubled has seventeen words (one of them empty); fifteen words with a
                             * doubled space are sixteen, one of which no list has */
            static char dbl[2][2048]; static int have2;
            if (!have2) { have2 = 1; char *sp = phr; for (int i = 0; i < 5; i++) sp = strchr(sp + 1, ' '); size_t n = (size_t)(sp - phr);
                memcpy(dbl[0], phr, n); dbl[0][n] = ' '; strcpy(dbl[0] + n + 1, sp);
                strcpy(dbl[1], dbl[0]); *strrchr(dbl[1], ' ') = 0; }
            const char *q = dbl[o->a - 7];
            if (o->a == 7) { st = polyseed_decode(q, 4, &lo, &d); want = ref_decode(q, 4, -1, m->mask, 0, CAP, NULL, NULL); if (want != ST_NUM_WORDS) BADV("c13:model-internal", "doubled-space phrase: model says %d", want); }
            else { st = polyseed_decode_explicit(q, 4, polyseed_get_lang(0), &d); want = ref_decode(q, 4, 0, m->mask, 0, CAP, NULL, NULL); if (want != ST_LANG) BADV("c13:model-internal", "fifteen words with a doubled space: model says %d", want); }
        } break;
        case 5: case 6: {   /* a checksum-valid phrase that two lists recognise (English/French words; characters common to both Chinese lists): always "multiple languages" */
            static char amb[2][2048]; static int have[2];
            int w = o->a - 5, la = w ? 8 : 0, lb = w ? 9 : 4;
            if (!have[w]) { have[w] = 1; unsigned cand[R_NW]; int nc = 0; uint64_t ps = 0xA3B1 + (uint64_t)w;
                for (unsigned i = 0; i < R_NW; i++) if (ref_recognise(lb, RL[la].w[i]) >= 0) cand[nc++] = i;
                for (int attempt = 0; attempt < 20000 && nc > 16; attempt++) { unsigned c[16]; for (int i = 1; i < 16; i++) c[i] = cand[prng(&ps) % (unsigned)nc]; if (c[2] & 1) continue; c[0] = 0; c[0] = ref_eval(c); int ok = 0; for (int i = 0; i < nc; i++) if (cand[i] == c[0]) ok = 1; if (!ok) continue; ref_phrase_from_idx(c, la, amb[w], 0); break; } }
            /* what an explicit decode in either of the two languages did just before must not tilt the automatic decision */
            for (int pre = 0; pre < 2 && !m->armed; pre++) { polyseed_data *dp = NULL;      /* (not in an armed state: the explicit decode would consume the fault) */ int sp = polyseed_decode_explicit(amb[w], 0, polyseed_get_lang(pre ? lb : la), &dp); if (sp == POLYSEED_OK) polyseed_free(dp);
                polyseed_data *da = (polyseed_data *)(uintptr_t)0xBEEF; const polyseed_lang *lq = NULL; int sa = polyseed_decode(amb[w], 0, &lq, &da); if (sa == POLYSEED_OK) polyseed_free(da);
                if (sa != ST_MULT_LANG) { snprintf(k, sizeof k, "c13:status:%s:after-explicit", o->name); BADV(k, "%s right after decode_explicit in %s returned %d, model %d", o->name, RL[pre ? lb : la].code, sa, ST_MULT_LANG); } }
            st = polyseed_decode(amb[w], 0, &lo, &d); want = ref_decode(amb[w], 0, -1, m->mask, 0, CAP, NULL, NULL);
            if (want != ST_MULT_LANG) BADV("c13:model-internal", "ambiguous phrase is not ambiguous for the model (%d)", want);
            { polyseed_data *d2 = (polyseed_data *)(uintptr_t)0xBEEF; int st2 = polyseed_decode(amb[w], 0, NULL, &d2);      /* the language output is optional on every exit */
              if (st2 != want) { snprintf(k, sizeof k, "c13:status:%s:null-lang-out", o->name); BADV(k, "%s with lang_out = NULL returned %d, model %d", o->name, st2, want); }
              if (st2 == POLYSEED_OK) polyseed_free(d2); }
        } break;
        }
        if (st != want) { snprintf(k, sizeof k, "c13:status:%s", o->name); BADV(k, "%s returned %d, model %d", o->name, st, want); }
        if (st == POLYSEED_OK) { polyseed_free(d); }
    } break;
    case O_ARM: m->armed = 1; st = want = 0; break;
    }
    LAST_STATUS = (o->kind == O_ENABLE) ? 0 : st;
    /* fault bookkeeping */
    int requested = (E.alloc_seq > 0);
    if (o->kind != O_ARM && o->kind != O_INJECT && o->kind != O_ENABLE) {
        (void)alloc_expected;   /* when and how often a call allocates is not specified; only statuses and the ledger are (multi-request faults: e2_fault) */
        if (m->armed && requested) {
            m->armed = 0;
            if (st != POLYSEED_ERR_MEMORY) { snprintf(k, sizeof k, "c15:fault-status:%s", o->name); BADV(k, "%s with a failing allocation returned %d instead of the memory status", o->name, st); }
        }
    }
    E.fail_at = -1;
    ledger_oracle(m, o->name);
}

/* observation battery in a state (fault disarmed) */
static uint64_t BAT_CALLS;
static void battery(struct mstate *m) {
    char k[160], why[300];
    uint64_t key0 = state_key(m);
    E.fail_at = -1;
    for (int i = 0; i < NSLOT; i++) {
        if (!m->live[i]) continue;
        const rseed *r = &m->s[i];
        for (int c = 0; c < 2; c++) {
            obs o; unsigned coin = c ? 2047 : 0; env_clear_log(); observe(SLOT[i], coin, &o); BAT_CALLS += 13;
            if (E.n_kdf != 1 || E.kdf.table != m->table) { snprintf(k, sizeof k, "c18:kdf-source:keygen"); BADV(k, "keygen on slot %d: the key-derivation function of the table in force (table %c) was not the one called exactly once (calls: %lu, table of the last call: %c)", i, 'A' + m->table, E.n_kdf, 'A' + E.kdf.table); }
            if (!obs_matches_ref(&o, r, coin, why, sizeof why)) { snprintf(k, sizeof k, "c13:battery-observe:slot%d", i); BADV(k, "slot %d does not present the model seed: %s", i, why); }
        }
        if (r->secret[18] & 0xC0) BADV("c13:model-internal", "model secret out of range");
        for (int li = 0; li < R_NLANG; li++) {
            polyseed_str ph; char exp[2048]; unsigned coin = (unsigned)(li * 97 + i);
            size_t n = polyseed_encode(SLOT[i], polyseed_get_lang(li), (polyseed_coin)coin, ph), en = ref_phrase(r, li, coin, exp, 0); BAT_CALLS++;
            if (n != en || memcmp(ph, exp, en + 1)) { snprintf(k, sizeof k, "c13:battery-encode:%s", RL[li].code); BADV(k, "slot %d: phrase in %s differs from the model", i, RL[li].code); }
            if (li == 0 || li == 2 || li == 9) {
                polyseed_data *d = NULL; rseed rr; int want = ref_decode(exp, coin, li, m->mask, 0, CAP, &rr, NULL);
                int st = polyseed_decode_explicit(ph, (polyseed_coin)coin, polyseed_get_lang(li), &d); BAT_CALLS++;
                if (st != want) { snprintf(k, sizeof k, "c13:battery-decode:%s", RL[li].code); BADV(k, "slot %d: decoding its own %s phrase returned %d, model %d", i, RL[li].code, st, want); }
                if (st == POLYSEED_OK) { uint8_t a[32], b[32]; polyseed_store(d, a); ref_storage(r, b); if (memcmp(a, b, 32)) { snprintf(k, sizeof k, "c13:battery-decode-seed:%s", RL[li].code); BADV(k, "slot %d: decoded seed differs", i); } polyseed_free(d); BAT_CALLS += 2; }
            }
        }
        { uint8_t st_[32]; polyseed_store(SLOT[i], st_); polyseed_data *d = NULL; int st = polyseed_load(st_, &d), want = ref_supported(r->features, m->mask) ? ST_OK : ST_UNSUPPORTED; BAT_CALLS += 2;
          if (st != want) { BADV("c13:battery-load", "slot %d: loading its own serialisation returned %d, model %d", i, st, want); }
          if (st == POLYSEED_OK) { uint8_t b[32]; polyseed_store(d, b); if (memcmp(st_, b, 32)) BADV("c13:battery-load-seed", "slot %d: reloaded seed differs", i); polyseed_free(d); } }
    }
    if (P_API) {   /* a blob and a phrase carrying the reserved internal feature bit are refused in every state */
        static rseed rb; static int init; static uint8_t img[32]; static char phr[2048];
        if (!init) { init = 1; for (int i = 0; i < 19; i++) rb.secret[i] = (uint8_t)(0x17 * (i + 2)); rb.secret[18] &= 0x3F; rb.birthday = 9; rb.features = 8; ref_storage(&rb, img); ref_phrase(&rb, 0, 0, phr, 0); }
        polyseed_data *d = NULL; int st = polyseed_load(img, &d); BAT_CALLS++; if (st == POLYSEED_OK) polyseed_free(d);
        if (st != ST_UNSUPPORTED) BADV("c13:battery-reserved-load", "load of a seed with the reserved feature bit returned %d", st);
        d = NULL; st = polyseed_decode_explicit(phr, 0, polyseed_get_lang(0), &d); BAT_CALLS++; if (st == POLYSEED_OK) polyseed_free(d);
        if (st != ST_UNSUPPORTED) BADV("c13:battery-reserved-decode", "decode of a phrase with the reserved feature bit returned %d", st);
    }
    if (P_FEAT) {
        /* C10: all 32 feature values at the four entry points */
        rseed r; memset(&r, 0, sizeof r); for (int i = 0; i < 19; i++) r.secret[i] = (uint8_t)(0x21 * (i + 3)); r.secret[18] &= 0x3F; r.birthday = 5;
        for (unsigned f = 0; f < 32; f++) {
            r.features = f; int sup = ref_supported(f, m->mask);
            uint8_t st_[32]; ref_storage(&r, st_); polyseed_data *d = NULL;
            int st = polyseed_load(st_, &d); BAT_CALLS++;
            if (st != (sup ? 0 : ST_UNSUPPORTED)) { snprintf(k, sizeof k, "c10:load:f%u:m%u", f, m->mask); BADV(k, "load of a seed with features %u under mask %u returned %d", f, m->mask, st); }
            if (st == 0) { for (unsigned q = 0; q < 8; q++) if (polyseed_get_feature(d, q) != (f & q & 7)) { snprintf(k, sizeof k, "c10:get_feature"); BADV(k, "get_feature(%u) on features %u returned %u", q, f, polyseed_get_feature(d, q)); }
                           if (polyseed_get_feature(d, 0xFFFFFFFFu) != (f & 7) || polyseed_get_feature(d, 16) != 0 || polyseed_get_feature(d, 24) != 0) BADV("c10:get_feature-high", "get_feature with high mask bits leaks internal bits (features %u)", f);
                           if (polyseed_is_encrypted(d) != (int)((f >> 4) & 1)) BADV("c10:is_encrypted", "is_encrypted wrong for features %u", f);
                           polyseed_free(d); }
            for (int li = 0; li < 2; li++) {
                int lang = li ? 8 : 0; char ph[2048]; ref_phrase(&r, lang, 3, ph, 0); d = NULL;
                st = polyseed_decode_explicit(ph, 3, polyseed_get_lang(lang), &d); BAT_CALLS++;
                if (st != (sup ? 0 : ST_UNSUPPORTED)) { snprintf(k, sizeof k, "c10:decode_explicit:f%u:m%u", f, m->mask); BADV(k, "decode_explicit of features %u under mask %u returned %d", f, m->mask, st); }
                if (st == 0) { uint8_t b[32]; polyseed_store(d, b); if (memcmp(b, st_, 32)) BADV("c10:decode-features-lost", "features %u not preserved by decode", f); polyseed_free(d); }
                d = NULL; const polyseed_lang *lo;
                st = polyseed_decode(ph, 3, &lo, &d); BAT_CALLS++;
                int wa = ref_decode(ph, 3, -1, m->mask, 0, CAP, NULL, NULL);
                if (st != wa || (wa != ST_MULT_LANG && st != (sup ? 0 : ST_UNSUPPORTED))) { snprintf(k, sizeof k, "c10:decode:f%u:m%u", f, m->mask); BADV(k, "decode of features %u under mask %u returned %d (model %d)", f, m->mask, st, wa); }
                if (st == 0) polyseed_free(d);
            }
        }
        /* "the most recent enabling call wins", back to back on the very same input: a call, an enabling call that flips the verdict,
         * the identical call again (nothing remembered from the refusal or the acceptance), then the mask of this state again */
        for (unsigned f = 1; f < 24; f++) {
            if ((f & 8) || !(f & 7)) continue;      /* only seeds whose acceptance depends on the mask */
            r.features = f; int sup = ref_supported(f, m->mask); unsigned flip = sup ? 0 : (f & 7);
            uint8_t st_[32]; ref_storage(&r, st_); char ph[2048]; ref_phrase(&r, 0, 3, ph, 0); const polyseed_lang *lo;
            for (int ep = 0; ep < 4; ep++) {
                if (ep == 3 && (f & 16)) continue;
                int got[2];
                for (int pass = 0; pass < 2; pass++) {
                    polyseed_data *d = NULL; int st = ep == 0 ? polyseed_load(st_, &d) : ep == 1 ? polyseed_decode_explicit(ph, 3, polyseed_get_lang(0), &d) : ep == 2 ? polyseed_decode(ph, 3, &lo, &d) : polyseed_create(f, &d); BAT_CALLS++;
                    if (st == 0) polyseed_free(d);
                    got[pass] = st;
                    if (pass == 0) polyseed_enable_features(flip);
                }
                polyseed_enable_features(m->mask); BAT_CALLS += 2;
                int w0 = sup ? 0 : ST_UNSUPPORTED, w1 = sup ? ST_UNSUPPORTED : 0;
                if (got[0] != w0 || got[1] != w1) { static const char *EP[] = { "load", "decode_explicit", "decode", "create" }; snprintf(k, sizeof k, "c10:latest-enabling-call:%s", EP[ep]); BADV(k, "%s of features %u: status %d under mask %u, then enable_features(%u), the same call again: status %d (expected %d then %d)", EP[ep], f, got[0], m->mask, flip, got[1], w0, w1); }
            }
        }
        static const unsigned CF[] = { 0, 1, 2, 3, 4, 5, 6, 7, 8, 9, 16, 23, 31, 0xFFFFFFF8u, 0xFFFFFFF9u, 0xFFFFFFFFu };
        for (unsigned j = 0; j < sizeof CF / sizeof *CF; j++) {
            polyseed_data *d = NULL; int st = polyseed_create(CF[j], &d), sup = ref_supported(CF[j] & 7, m->mask); BAT_CALLS++;
            if (st != (sup ? 0 : ST_UNSUPPORTED)) { snprintf(k, sizeof k, "c10:create:f%u:m%u", CF[j] & 31, m->mask); BADV(k, "create(%#x) under mask %u returned %d", CF[j], m->mask, st); }
            if (st == 0) { uint8_t b[32]; polyseed_store(d, b); unsigned f = (b[8] | b[9] << 8) >> 10; if (f != (CF[j] & 7)) { BADV("c10:create-stores", "create(%#x) stored feature bits %u", CF[j], f); } polyseed_free(d); }
        }
    }
    env_clear_log();
    if (state_key(m) != key0) BADV("c13:query-changes-state", "pure queries changed the state key");
    if (ledger_live() != nlive(m)) BADV("c15:ledger:battery", "queries leaked %d blocks", ledger_live() - nlive(m));
    E.fail_at = -1;
}

/* ---- search structures */
struct node { uint32_t parent; uint16_t op; uint16_t depth; uint64_t key; };
static struct node *NODES; static uint32_t NN, NCAP;
#define HBITS 24
static uint32_t *HT;  /* index+1 into NODES by key */
static int ht_find(uint64_t key) { uint32_t i = (uint32_t)(key >> 13) & ((1u << HBITS) - 1); while (HT[i]) { if (NODES[HT[i] - 1].key == key) return (int)HT[i] - 1; i = (i + 1) & ((1u << HBITS) - 1); } return -1; }
static void ht_put(uint64_t key, uint32_t id) { uint32_t i = (uint32_t)(key >> 13) & ((1u << HBITS) - 1); while (HT[i]) i = (i + 1) & ((1u << HBITS) - 1); HT[i] = id + 1; }
static int history(uint32_t id, uint16_t *ops) { int n = NODES[id].depth; uint32_t x = id; for (int i = n - 1; i >= 0; i--) { ops[i] = NODES[x].op; x = NODES[x].parent; } return n; }
static void hist_str(const uint16_t *ops, int n, int extra, char *out, size_t cap) { size_t l = 0; l += (size_t)snprintf(out + l, cap - l, "case %s %d ", PROFILE, NSLOT); for (int i = 0; i < n && l < cap - 8; i++) l += (size_t)snprintf(out + l, cap - l, "%s%d", i ? "," : "", ops[i]); if (extra >= 0 && l < cap - 8) snprintf(out + l, cap - l, "%s%d", n ? "," : "", extra); }
static void hist_names(const uint16_t *ops, int n, int extra, char *out, size_t cap) { size_t l = 0; out[0] = 0; for (int i = 0; i < n && l < cap - 60; i++) l += (size_t)snprintf(out + l, cap - l, "%s%s", i ? " ; " : "", OPS[ops[i]].name); if (extra >= 0 && l < cap - 60) snprintf(out + l, cap - l, "%s%s", n ? " ; " : "", OPS[extra].name); }

/* replay a history; returns 0 if the recorded key is reproduced */
static int replay(const uint16_t *ops, int n, struct mstate *m, uint64_t expect_key) {
    reset_all(m);
    for (int i = 0; i < n; i++) apply(&OPS[ops[i]], m);
    return expect_key && state_key(m) != expect_key;
}

struct rec { uint32_t src; uint16_t op; uint16_t pad; uint64_t key; };
struct wsum { uint64_t fault_trans; uint8_t fault_seen[MAXOPS]; uint64_t transitions, battery_runs, battery_calls, replays, replay_ops, divergences; uint64_t op_outcome[MAXOPS][8]; int nviol; struct viol v[40]; int timed_out; };

static void expand_worker(const uint32_t *front, uint32_t nf, int w, int W, int fd) {
    struct wsum *S = calloc(1, sizeof *S);
    struct rec *out = malloc(sizeof(struct rec) * 65536); uint32_t nout = 0;
    /* local set of keys already emitted by this worker in this level */
    uint32_t lcap = 1u << 18; uint64_t *lset = calloc(lcap, 8);
    for (uint32_t fi = (uint32_t)w; fi < nf; fi += (uint32_t)W) {
        if (past_deadline()) { S->timed_out = 1; break; }
        uint32_t id = front[fi]; uint16_t ops[256]; int n = history(id, ops);
        struct mstate m0; VBAD = 0;
        int div = replay(ops, n, &m0, NODES[id].key); S->replays++; S->replay_ops += (uint64_t)n;
        if (div || VBAD) { S->divergences++; if (S->nviol < 40) { struct viol *v = &S->v[S->nviol++]; snprintf(v->key, sizeof v->key, "harness:replay-divergence"); hist_str(ops, n, -1, v->replay, sizeof v->replay); snprintf(v->msg, sizeof v->msg, "replaying a stored history did not reproduce its state key (%s)", VBAD ? VMSG : "key differs"); } continue; }
        for (int oi = 0; oi < NOPS; oi++) {
            if (!enabled(&OPS[oi], &m0)) continue;
            struct mstate m; VBAD = 0;
            replay(ops, n, &m, 0); S->replay_ops += (uint64_t)n;
            apply(&OPS[oi], &m); S->transitions++;
            if (m0.armed && !m.armed && LAST_STATUS >= 0 && LAST_STATUS < 8) { S->fault_trans++; S->fault_seen[oi] |= (uint8_t)(1 << LAST_STATUS); }
            if (LAST_STATUS >= 0 && LAST_STATUS < 8) S->op_outcome[oi][LAST_STATUS]++;
            uint64_t key = state_key(&m);
            int known = ht_find(key) >= 0;
            if (!known) { uint32_t i = (uint32_t)(key >> 7) & (lcap - 1); while (lset[i] && lset[i] != key) i = (i + 1) & (lcap - 1); if (lset[i] == key) known = 1; else lset[i] = key; }
            if (!known && !VBAD) { battery(&m); S->battery_runs++; }
            if (VBAD) { for (int q = 0; q < VBAD; q++) { int dup = 0; for (int j = 0; j < S->nviol; j++) if (!strcmp(S->v[j].key, VKEYS[q])) dup = 1;
                if (!dup && S->nviol < 40) { struct viol *v = &S->v[S->nviol++]; snprintf(v->key, sizeof v->key, "%s", VKEYS[q]); hist_str(ops, n, oi, v->replay, sizeof v->replay); char hn[400]; hist_names(ops, n, oi, hn, sizeof hn); snprintf(v->msg, sizeof v->msg, "%.250s  [history: %.300s]", VMSGS[q], hn); } }
                continue; }       /* do not explore beyond a violating transition */
            if (!known) { if (nout == 65536) { if (write(fd, out, sizeof(struct rec) * nout) < 0) _exit(5); nout = 0; } out[nout++] = (struct rec){ id, (uint16_t)oi, 0, key }; }
        }
    }
    S->battery_calls = BAT_CALLS;
    if (nout && write(fd, out, sizeof(struct rec) * nout) < 0) _exit(5);
    struct rec end = { 0xFFFFFFFFu, 0, 0, 0 }; if (write(fd, &end, sizeof end) < 0) _exit(5);
    const char *p = (const char *)S; size_t left = sizeof *S; while (left) { ssize_t kk = write(fd, p, left); if (kk <= 0) _exit(5); p += kk; left -= (size_t)kk; }
    _exit(0);
}

static void add_op(int kind, int a, int b, int c, const char *fmt, ...) __attribute__((format(printf, 5, 6)));
#include <stdarg.h>
static void add_op(int kind, int a, int b, int c, const char *fmt, ...) { struct op *o = &OPS[NOPS++]; o->kind = kind; o->a = a; o->b = b; o->c = c; va_list ap; va_start(ap, fmt); vsnprintf(o->name, sizeof o->name, fmt, ap); va_end(ap); }

static void build_profile(void) {
    memset(LONGPW, 'x', 400); LONGPW[400] = 0;
    P_API = !strcmp(PROFILE, "api"); P_FEAT = !strcmp(PROFILE, "feat"); P_CRYPT = !strcmp(PROFILE, "crypt"); P_INJECT = !strcmp(PROFILE, "inject"); P_TABLES = !strcmp(PROFILE, "tables");
    if (P_API) {
        PASSWORDS[0] = "a"; PASSWORDS[1] = "\xC3\xA9"; NPW = 2;
        RECODES[0] = (struct recv){ 0, 0, 1 }; RECODES[1] = (struct recv){ 2, 2047, 0 }; RECODES[2] = (struct recv){ 8, 0, 1 }; NREC = 3;
        static const int CF[] = { 0, 1, 6 };
        for (int s = 0; s < NSLOT; s++) {
            for (int j = 0; j < 3; j++) add_op(O_CREATE, s, CF[j], s, "create(slot%d,features=%d)", s, CF[j]);
            if (s == 0) { add_op(O_CREATE, s, (int)0xFFFFFF09u, s, "create(slot0,features=0xffffff09)"); add_op(O_CREATE, s, 0, 9, "create(slot0,features=0,clock first month after 2107)"); add_op(O_CREATE, s, 0, 11, "create(slot0,features=0,clock reading differently each time)"); add_op(O_CREATE, s, 0, 10, "create(slot0,features=0,clock 2^32 s after the epoch)"); }
            add_op(O_FREE, s, 0, 0, "free(slot%d)", s);
            for (int p = 0; p < NPW; p++) add_op(O_CRYPT, s, p, 0, "crypt(slot%d,pw%d)", s, p);
            for (int d = 0; d < NSLOT; d++) if (d != s) {
                add_op(O_RELOAD, s, d, 0, "load(store(slot%d))->slot%d", s, d);
                for (int v = 0; v < NREC; v++) add_op(O_RECODE, s, d, v, "decode%s(encode(slot%d,%s,coin=%u))->slot%d", RECODES[v].autodetect ? "" : "_explicit", s, RL[RECODES[v].li].code, RECODES[v].coin, d);
            }
        }
        add_op(O_FREENULL, 0, 0, 0, "free(NULL)");
        add_op(O_ENABLE, 0, 0, 0, "enable_features(0)"); add_op(O_ENABLE, 1, 0, 0, "enable_features(1)"); add_op(O_ENABLE, 7, 0, 0, "enable_features(7)");
        add_op(O_INJECT, 0, 0, 0, "inject(A)"); add_op(O_INJECT, 1, 7, 0, "inject(B:time,alloc,free=NULL)");
        add_op(O_INJECT, 1, 2, 0, "inject(B:alloc=NULL)");      /* each optional entry is optional on its own (the inject profile has all eight patterns) */
        add_op(O_ARM, 0, 0, 0, "arm-allocation-fault");
        add_op(O_BADCALL, 0, 0, 0, "load(bad-checksum)"); add_op(O_BADCALL, 1, 0, 0, "load(bad-header)"); add_op(O_BADCALL, 2, 0, 0, "decode(two-words)");
        add_op(O_BADCALL, 3, 0, 0, "decode_explicit(unknown-words)"); add_op(O_BADCALL, 4, 0, 0, "decode(wrong-coin)");
        add_op(O_BADCALL, 5, 0, 0, "decode(ambiguous en/fr phrase)"); add_op(O_BADCALL, 6, 0, 0, "decode(ambiguous zh_s/zh_t phrase)");
        add_op(O_BADCALL, 7, 0, 0, "decode(valid phrase, one space doubled)"); add_op(O_BADCALL, 8, 0, 0, "decode_explicit(fifteen words, one space doubled)"); add_op(O_BADCALL, 9, 0, 0, "decode + decode_explicit(valid English phrase typed with U+3000 / U+00A0 spaces)"); add_op(O_BADCALL, 10, 0, 0, "decode + decode_explicit(Czech phrase with a caron typed into a word)");
    } else if (P_FEAT) {
        NSLOT = 1; PASSWORDS[0] = "pw"; NPW = 1;
        RECODES[0] = (struct recv){ 0, 5, 0 }; RECODES[1] = (struct recv){ 3, 5, 1 }; NREC = 2;
        for (unsigned i = 0; i < sizeof ENABLE_ARGS / sizeof *ENABLE_ARGS; i++) add_op(O_ENABLE, (int)i, 0, 0, "enable_features(%#x)", ENABLE_ARGS[i]);
        static const unsigned CF[] = { 0, 1, 2, 3, 4, 5, 6, 7, 8, 15, 16, 31, 0xFFFFFFFFu };
        for (unsigned j = 0; j < sizeof CF / sizeof *CF; j++) add_op(O_CREATE, 0, (int)CF[j], 0, "create(features=%#x)", CF[j]);
        add_op(O_CREATE, 0, 0, 9, "create(features=0,clock first month after 2107)"); add_op(O_CREATE, 0, 0, 10, "create(features=0,clock 2^32 s after the epoch)");
        add_op(O_INJECT, 0, 0, 0, "inject(A) again");
        add_op(O_FREE, 0, 0, 0, "free"); add_op(O_CRYPT, 0, 0, 0, "crypt(pw)");
        /* reload / recode need a second slot to land in: use slot 1 transiently = not modelled here; use in-place variants */
        NSLOT = 2;
        add_op(O_RELOAD, 0, 1, 0, "load(store(slot0))->slot1"); add_op(O_FREE, 1, 0, 0, "free(slot1)");
        for (int v = 0; v < NREC; v++) add_op(O_RECODE, 0, 1, v, "decode%s(encode(slot0,%s))->slot1", RECODES[v].autodetect ? "" : "_explicit", RL[RECODES[v].li].code);
        add_op(O_CRYPT, 1, 0, 0, "crypt(slot1,pw)");
    } else if (P_CRYPT) {
        NSLOT = 2;
        PASSWORDS[0] = ""; PASSWORDS[1] = "a"; PASSWORDS[2] = "\xC3\xA9"; PASSWORDS[3] = "e\xCC\x81"; PASSWORDS[4] = "\xEF\xBD\xB6"; PASSWORDS[5] = LONGPW; PASSWORDS[6] = "\xE3\x82\xAB"; NPW = 7;
        if (G_thorough) { PASSWORDS[7] = "fi"; PASSWORDS[8] = "\xEF\xAC\x81"; NPW = 9; }   /* U+FB01 LATIN SMALL LIGATURE FI is compatibility-equivalent to "fi" */
        RECODES[0] = (struct recv){ 0, 1, 1 }; RECODES[1] = (struct recv){ 1, 9, 0 }; RECODES[2] = (struct recv){ 4, 0, 0 }; NREC = 3;
        add_op(O_ENABLE, 13, 0, 0, "enable_features(0xffffffff)"); add_op(O_ENABLE, 0, 0, 0, "enable_features(0)");      /* the password operation does not depend on what is enabled when it runs */
        add_op(O_CREATE, 0, 0, 0, "create(features=0)"); add_op(O_CREATE, 0, 5, 1, "create'(features=5)");
        add_op(O_FREE, 0, 0, 0, "free(slot0)"); add_op(O_FREE, 1, 0, 0, "free(slot1)");
        for (int p = 0; p < NPW; p++) add_op(O_CRYPT, 0, p, 0, "crypt(slot0,pw%d)", p);
        add_op(O_RELOAD, 0, 1, 0, "load(store(slot0))->slot1");
        for (int v = 0; v < NREC; v++) add_op(O_RECODE, 0, 1, v, "decode%s(encode(slot0,%s))->slot1", RECODES[v].autodetect ? "" : "_explicit", RL[RECODES[v].li].code);
        add_op(O_CRYPT, 1, 1, 0, "crypt(slot1,pw1)"); add_op(O_CRYPT, 1, 3, 0, "crypt(slot1,pw3)");
    } else if (P_TABLES) {
        /* seeds that outlive the dependency table they were made under: two tables with the same allocator entries (so re-injection is allowed
         * while seeds are alive), every operation on a seed then goes through the table in force */
        NSLOT = 2; PASSWORDS[0] = "pw"; PASSWORDS[1] = "\xC3\xA9"; NPW = 2; RECODES[0] = (struct recv){ 0, 5, 1 }; RECODES[1] = (struct recv){ 2, 2047, 0 }; NREC = 2;
        for (int s = 0; s < 2; s++) { add_op(O_CREATE, s, s ? 1 : 0, s, "create(slot%d,features=%d)", s, s ? 1 : 0); add_op(O_FREE, s, 0, 0, "free(slot%d)", s); add_op(O_CRYPT, s, s, 0, "crypt(slot%d,pw%d)", s, s); }
        add_op(O_RELOAD, 0, 1, 0, "load(store(slot0))->slot1"); for (int v = 0; v < NREC; v++) add_op(O_RECODE, 0, 1, v, "decode%s(encode(slot0,%s))->slot1", RECODES[v].autodetect ? "" : "_explicit", RL[RECODES[v].li].code);
        add_op(O_ENABLE, 1, 0, 0, "enable_features(1)");
        add_op(O_INJECT, 0, 0, 0, "inject(A)"); add_op(O_INJECT, 1, 0, 0, "inject(B)"); add_op(O_INJECT, 1, 1, 0, "inject(B:time=NULL)"); add_op(O_INJECT, 0, 1, 0, "inject(A:time=NULL)"); add_op(O_INJECT, 0, 0, 1, "create+free while the allocator callback injects the other table");
        add_op(O_ARM, 0, 0, 0, "arm-allocation-fault"); add_op(O_BADCALL, 0, 0, 0, "load(bad-checksum)"); add_op(O_BADCALL, 4, 0, 0, "decode(wrong-coin)");
    } else if (P_INJECT) {
        NSLOT = 1;
        for (int t = 0; t < 2; t++) for (int np = 0; np < 8; np++) add_op(O_INJECT, t, np, 0, "inject(table%c,null:%s%s%s)", 'A' + t, np & 1 ? "time " : "", np & 2 ? "alloc " : "", np & 4 ? "free" : "");
        add_op(O_CREATE, 0, 0, 0, "create"); add_op(O_FREE, 0, 0, 0, "free"); add_op(O_FREENULL, 0, 0, 0, "free(NULL)"); add_op(O_ARM, 0, 0, 0, "arm-allocation-fault");
    }
}

int main(int argc, char **argv) {
    int a = common_args(argc, argv);
    ref_init(VERIF_ROOT); sec_mark_initial(); env_init();
    int replay_mode = 0; const char *replay_ops = NULL;
    if (a < argc && !strcmp(argv[a], "case")) { replay_mode = 1; PROFILE = argv[a + 1]; NSLOT = atoi(argv[a + 2]); replay_ops = a + 3 < argc ? argv[a + 3] : ""; }
    else { if (a < argc) PROFILE = argv[a]; if (a + 1 < argc) NSLOT = atoi(argv[a + 1]); }
    int ns = NSLOT; build_profile(); if (P_API) NSLOT = ns;
    uint64_t max_states = (a + 2 < argc && !replay_mode) ? strtoull(argv[a + 2], NULL, 10) : 4000000;
    if (replay_mode) {
        uint16_t ops[256]; int n = 0; char *dup = strdup(replay_ops);
        for (char *t = strtok(dup, ","); t; t = strtok(NULL, ",")) ops[n++] = (uint16_t)atoi(t);
        struct mstate m; int bad = 0;
        for (int rep = 0; rep < 2; rep++) {
            reset_all(&m); VBAD = 0;
            for (int i = 0; i < n; i++) { apply(&OPS[ops[i]], &m); if (rep == 0) printf("%2d. %-60s -> status %d%s\n", i + 1, OPS[ops[i]].name, LAST_STATUS, VBAD ? "   <== VIOLATION" : ""); if (VBAD) break; }
            if (!VBAD) battery(&m);
            if (VBAD) { bad = 1; if (rep == 0) for (int q = 0; q < VBAD; q++) printf("REPRODUCED %s: %s\n", VKEYS[q], VMSGS[q]); }
        }
        return bad;
    }
    NCAP = 1u << 22; NODES = malloc(sizeof(struct node) * NCAP); HT = calloc(1u << HBITS, 4);
    struct mstate m; reset_all(&m); VBAD = 0; battery(&m);
    NODES[0] = (struct node){ 0, 0, 0, state_key(&m) }; NN = 1; ht_put(NODES[0].key, 0);
    uint32_t *front = malloc(4 * NCAP), *next = malloc(4 * NCAP); uint32_t nf = 1, nn = 0; front[0] = 0;
    struct wsum *T = calloc(1, sizeof *T), *S = malloc(sizeof *S);
    int depth = 0, fixpoint = 0, capped = 0; if (VBAD) { T->nviol = 1; snprintf(T->v[0].key, sizeof T->v[0].key, "%s", VKEY); snprintf(T->v[0].msg, sizeof T->v[0].msg, "%s (initial state)", VMSG); hist_str(NULL, 0, -1, T->v[0].replay, sizeof T->v[0].replay); }
    uint64_t level_sizes[64] = {1};
    while (nf && !T->timed_out) {
        int W = G_workers; if ((uint32_t)W > nf) W = (int)nf;
        int fds[64][2]; pid_t pid[64];
        fflush(stdout);
        for (int w = 0; w < W; w++) { if (pipe(fds[w])) exit(3); pid[w] = fork(); if (pid[w] == 0) { prctl(PR_SET_PDEATHSIG, SIGKILL); close(fds[w][0]); expand_worker(front, nf, w, W, fds[w][1]); } close(fds[w][1]); }
        nn = 0;
        for (int w = 0; w < W; w++) {
            FILE *f = fdopen(fds[w][0], "r"); struct rec rc; int ended = 0;
            while (fread(&rc, sizeof rc, 1, f) == 1) {
                if (rc.src == 0xFFFFFFFFu) { ended = 1; break; }
                if (ht_find(rc.key) >= 0) continue;
                if (NN >= NCAP || NN >= max_states) { capped = 1; continue; }
                NODES[NN] = (struct node){ rc.src, rc.op, (uint16_t)(NODES[rc.src].depth + 1), rc.key }; ht_put(rc.key, NN); next[nn++] = NN; NN++;
            }
            int ok = ended && fread(S, sizeof *S, 1, f) == 1; fclose(f);
            int stt; waitpid(pid[w], &stt, 0);
            if (!ok) { if (T->nviol < 40) { struct viol *v = &T->v[T->nviol++]; snprintf(v->key, sizeof v->key, "crash:e1-worker"); snprintf(v->msg, sizeof v->msg, "worker died at depth %d (status %d)", depth, stt); v->replay[0] = 0; } continue; }
            T->transitions += S->transitions; T->battery_runs += S->battery_runs; T->battery_calls += S->battery_calls; T->replays += S->replays; T->replay_ops += S->replay_ops; T->divergences += S->divergences; T->timed_out |= S->timed_out; T->fault_trans += S->fault_trans; for (int i = 0; i < NOPS; i++) T->fault_seen[i] |= S->fault_seen[i];
            for (int i = 0; i < NOPS; i++) for (int j = 0; j < 8; j++) T->op_outcome[i][j] += S->op_outcome[i][j];
            for (int i = 0; i < S->nviol; i++) { int dup = 0; for (int j = 0; j < T->nviol; j++) if (!strcmp(T->v[j].key, S->v[i].key)) dup = 1; if (!dup && T->nviol < 40) T->v[T->nviol++] = S->v[i]; }
        }
        depth++;
        if (depth < 64) level_sizes[depth] = nn;
        uint32_t *t = front; front = next; next = t; nf = nn;
        if (capped) break;
        if (T->nviol) break;          /* stop at the first level that shows a violation: the shortest counterexamples */
    }
    fixpoint = (nf == 0 && !capped && !T->timed_out && !T->nviol);
    /* output */
    struct res *r = calloc(1, sizeof *r);
    r->cases = NN; r->calls = T->transitions + T->battery_calls; r->validated = T->transitions; r->timed_out = !fixpoint;      /* a search cut short by a violation (possibly one that another property's check reports) is not complete */
    r->nviol = 0; r->nviol_total = (uint64_t)T->nviol;
    for (int i = 0; i < T->nviol && i < MAXV; i++) r->v[r->nviol++] = T->v[i];
    /* samples: three histories */
    for (int k = 0; k < 3 && NN > 1; k++) { uint32_t id = k == 0 ? 1 : k == 1 ? NN / 2 : NN - 1; uint16_t ops[256]; int n = history(id, ops); char hn[380]; hist_names(ops, n, -1, hn, sizeof hn); res_sample(r, "state #%u depth %d: %s", id, n, hn); }
    static const char *cls[NCLS + 1]; static char clsn[NCLS][64]; int nc = 0;
    /* outcome histogram per operation kind x status */
    { static const char *KN[] = { "create", "free", "free_null", "crypt", "reload", "recode", "enable", "inject", "arm", "failing_call" }; static const char *SN[] = { "ok", "num_words", "lang", "checksum", "unsupported", "format", "memory", "mult_lang" };
      for (int kd = 0; kd <= O_BADCALL; kd++) for (int s = 0; s < 8; s++) { uint64_t c = 0; for (int i = 0; i < NOPS; i++) if (OPS[i].kind == kd) c += T->op_outcome[i][s]; if (c && nc < NCLS - 1) { snprintf(clsn[nc], sizeof clsn[nc], "%s->%s", KN[kd], SN[s]); cls[nc] = clsn[nc]; r->cls[nc] = c; nc++; } } }
    cls[nc] = NULL;
    out_begin();
    char name[160]; snprintf(name, sizeof name, "E1 profile %s, %d slots, %d operations in the alphabet", PROFILE, NSLOT, NOPS);
    char note[400]; snprintf(note, sizeof note, "breadth-first to %s; states = distinct canonical keys; every transition compared with the reference model, observation battery in every new state", fixpoint ? "fixpoint (no new state at the last level)" : capped ? "the state cap" : T->nviol ? "the first violating level" : "the deadline");
    out_part(name, r, cls, note);
    out_kv_int("e1_states", NN); out_kv_int("e1_transitions", (long long)T->transitions); out_kv_int("e1_max_depth", depth - (fixpoint ? 1 : 0)); out_kv_int("e1_fixpoint", fixpoint);
    out_kv_int("e1_battery_runs", (long long)T->battery_runs); out_kv_int("e1_replay_divergences", (long long)T->divergences); out_kv_int("e1_replayed_ops", (long long)T->replay_ops);
    { int fd = 0; for (int i = 0; i < NOPS; i++) for (int b = 0; b < 8; b++) fd += (T->fault_seen[i] >> b) & 1; out_kv_int("e1_fault_transitions", (long long)T->fault_trans); out_kv_int("e1_fault_distinct", fd); }
    out_kv_int("e1_alphabet", NOPS); out_kv_int("e1_capped", capped);
    out_end();
    return 0;
}
