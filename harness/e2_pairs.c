/* E2 family "pairs" (C13, histories of length two over the complete word alphabet): for every ORDERED pair (A, B) of
 * words of a language, a phrase whose last word is A is decoded, then a phrase whose first word is B.  The second
 * result must not depend on the first call: it must be OK with exactly the reference seed.  Anything the library
 * remembers about recently seen words (a lookup cache, a "last language", a reused buffer) is exercised with every
 * possible predecessor. */
#include "h.h"
static const char *CLS[] = { "second_decode_independent_of_first", NULL };
static unsigned INV15[2048];      /* contribution v of word 16 -> the index that contributes v */
static int LANGS[R_NLANG], NLANGS;
static void work(long lo, long hi, struct res *r, void *arg) {
    (void)arg;
    for (long x = lo; x < hi; x++) {
        if ((x & 1023) == 0 && past_deadline()) { r->timed_out = 1; return; }
        unsigned B = (unsigned)(x % 2048), A = (unsigned)((x / 2048) % 2048); int li = LANGS[x / (2048L * 2048)];
        /* phrase 1: fillers, A last */
        unsigned c[16]; for (int i = 1; i < 15; i++) c[i] = (unsigned)((A * 5 + i * 211) & 2046); c[15] = A; c[0] = 0; c[0] = ref_eval(c);
        char p1[2048]; ref_phrase_from_idx(c, li, p1, 2);
        /* phrase 2: B first (as check word), fillers, word 16 chosen so that the check value is B */
        unsigned d[16]; for (int i = 1; i < 15; i++) d[i] = (unsigned)((B * 3 + i * 397 + 2) & 2046); d[15] = 0; d[0] = 0; unsigned base = ref_eval(d); d[15] = INV15[base ^ B]; d[0] = B;
        rseed want; ref_from_coeffs(d, &want);
        if (want.features & 8) continue;
        char p2[2048]; ref_phrase_from_idx(d, li, p2, 2);
        polyseed_data *s = NULL; int s1 = polyseed_decode_explicit(p1, 0, polyseed_get_lang(li), &s); if (s1 == POLYSEED_OK) polyseed_free(s);
        s = NULL; int s2 = polyseed_decode_explicit(p2, 0, polyseed_get_lang(li), &s); r->calls += 2; r->cases++;
        uint8_t got[32], exp[32]; memset(got, 0, 32); ref_storage(&want, exp); if (s2 == POLYSEED_OK) { polyseed_store(s, got); polyseed_free(s); }
        r->digest ^= mix64((uint64_t)x, (uint64_t)(s1 * 8 + s2));
        if (s2 != POLYSEED_OK || memcmp(got, exp, 32)) {
            char key[100], rep[120]; snprintf(key, sizeof key, "c13:pair-history:%s", RL[li].code); sprintf(rep, "case %d %u %u", li, A, B);
            res_viol(r, key, rep, "%s: after decoding a phrase ending in \"%s\" (status %d), a valid phrase beginning with \"%s\" returned %d%s", RL[li].code, RL[li].w[A], s1, RL[li].w[B], s2, s2 == 0 ? " with a different seed" : "");
        } else { r->validated++; r->cls[0]++; }
    }
    if (r->nsample < 1 && lo < hi) res_sample(r, "ordered word pair (#%ld, #%ld) of %s: decode(... A) then decode(B ...)", (lo / 2048) % 2048, lo % 2048, RL[LANGS[lo / (2048L * 2048)]].code);
}
int main(int argc, char **argv) {
    int a = common_args(argc, argv);
    ref_init(VERIF_ROOT); sec_mark_initial(); env_init(); inject(0); polyseed_enable_features(7);
    for (unsigned v = 0; v < 2048; v++) INV15[ref_mulx_pow(v, 15)] = v;
    struct res *r = calloc(1, sizeof *r);
    if (a < argc && !strcmp(argv[a], "case")) { LANGS[0] = atoi(argv[a + 1]); long x = (long)atoi(argv[a + 2]) * 2048 + atoi(argv[a + 3]); work(x, x + 1, r, NULL); for (int i = 0; i < r->nviol; i++) printf("REPRODUCED %s: %s\n", r->v[i].key, r->v[i].msg); return r->nviol ? 1 : 0; }
    if (G_thorough) { for (int li = 0; li < 8; li++) LANGS[NLANGS++] = li; } else { LANGS[NLANGS++] = 0; LANGS[NLANGS++] = 3; }
    out_begin();
    par_run((long)NLANGS * 2048 * 2048, work, NULL, r);
    out_part("all ordered pairs of words: decode(...A) then decode(B...)", r, CLS, G_thorough ? "8 sorted languages x 2048 x 2048" : "English and Spanish x 2048 x 2048");
    out_end(); return 0;
}
