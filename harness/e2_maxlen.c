/* E2 family "maxlen" (C17): the public buffer size bounds every phrase.
 * The words are taken from the library itself (encode output), per language x position the maximum
 * length over the admissible index set of that position is summed (exact worst case over all
 * 2048^15 data-word combinations), for the composed output form, the internal temporary of encode
 * (stored words + raw separator) and the decoder's NFKD form, under all 8 enabled masks.
 * Witness seeds attaining the per-position maxima are then encoded and decoded under ASan. */
#include "h.h"

static const char *CLS[] = { "bound_holds(lang x mask x form)", "witness_encoded_and_decoded", "length_returned_and_fed_back(seed x lang x coin)", NULL };
static size_t LEN[R_NLANG][3][R_NW];   /* form 0 = emitted (NFC if composing), 1 = stored/decomposed, 2 = NFKD */
static char *EMIT[R_NLANG][R_NW];

static int admissible(int p, unsigned idx, unsigned mask) {
    if (p == 2) return !(idx & 1);                       /* reserved feature bit */
    if (p >= 3 && p <= 5) { unsigned bit = 1u << (5 - p); return !(idx & 1) || (mask & bit); }
    return 1;                                            /* positions 0, 1 (coin xor reaches every index), 6..15 */
}

static void fb_one(polyseed_data *d, const rseed *sp, const uint8_t s0[32], int li, unsigned coin, int narrow, struct res *r) {
    rseed s = *sp;
    /* the caller's buffer may sit at any address: offsets 0..7 from an aligned block, guard bytes on both sides */
    struct { uint8_t raw[PSTR + 80]; } B_ __attribute__((aligned(16))); memset(&B_, 0x6B, sizeof B_); size_t boff = 16 + (size_t)((li + coin + (unsigned)narrow * 3) % 8);
    struct { char *out; uint8_t *canary; } b = { (char *)B_.raw + boff, B_.raw + boff + PSTR };
    /* a seed in hand stays encodable whatever the enabled mask is now: half of the cases encode with every user feature disabled */
    if (narrow) polyseed_enable_features(0);
    size_t n = polyseed_encode(d, polyseed_get_lang(li), (polyseed_coin)coin, b.out); r->calls++; r->cases++;
    if (narrow) polyseed_enable_features(7);
    char rep[120], h[40]; hex(s.secret, 19, h); snprintf(rep, sizeof rep, "fb %s %u %u %d %u %d", h, s.birthday, s.features, li, coin, narrow);
    int bad = 0; for (int i = 0; i < 32; i++) if (b.canary[i] != 0x6B) bad |= 1;
    for (size_t i = 0; i < boff; i++) if (B_.raw[i] != 0x6B) bad |= 1;
    size_t real = strnlen(b.out, PSTR);
    if (real >= PSTR) bad |= 1;
    if (!bad && real != n) { char key[64]; snprintf(key, sizeof key, "c17:returned-length:%s", RL[li].code); res_viol(r, key, rep, "%s, coin %u: polyseed_encode returned %zu but the NUL-terminated output is %zu bytes long", RL[li].name_en, coin, n, real); return; }
    if (bad) { res_viol(r, "c17:feedback-overrun", rep, "encode wrote outside the phrase buffer or left it unterminated"); return; }
    polyseed_data *e = NULL; int st = polyseed_decode_explicit(b.out, (polyseed_coin)coin, polyseed_get_lang(li), &e); r->calls++;
    uint8_t s1[32]; int same = 0; if (st == POLYSEED_OK) { polyseed_store(e, s1); polyseed_free(e); same = !memcmp(s0, s1, 32); }
    if (st != POLYSEED_OK || !same) { char key[64]; snprintf(key, sizeof key, "c17:feedback:%s", RL[li].code); res_viol(r, key, rep, "%s phrase of %zu bytes produced by encode (coin %u) fed back to decode_explicit: status %d%s", RL[li].name_en, n, coin, st, st == 0 ? ", different seed" : ""); return; }
    e = NULL; st = polyseed_decode(b.out, (polyseed_coin)coin, NULL, &e); r->calls++; if (st == POLYSEED_OK) polyseed_free(e);
    if (st != POLYSEED_OK && st != POLYSEED_ERR_MULT_LANG) { char key[64]; snprintf(key, sizeof key, "c17:feedback-auto:%s", RL[li].code); res_viol(r, key, rep, "%s phrase of %zu bytes produced by encode (coin %u) fed back to decode: status %d", RL[li].name_en, n, coin, st); return; }
    r->validated++; r->cls[2]++;
    r->digest ^= mix64((uint64_t)li * 7 + coin, n);
}

int main(int argc, char **argv) {
    int a = common_args(argc, argv); (void)a;
    ref_init(VERIF_ROOT); sec_mark_initial(); env_init(); inject(0);
    polyseed_enable_features(7);
    struct res *r = calloc(1, sizeof *r);
    int replay_li = -1; unsigned replay_mask = 0;
    if (a < argc && !strcmp(argv[a], "case")) { replay_li = atoi(argv[a + 1]); replay_mask = atoi(argv[a + 2]); }
    if (a + 5 < argc && !strcmp(argv[a], "fb")) {      /* fb <secret> <birthday> <features> <language> <coin> */
        rseed s; parse_rseed(argv[a + 1], atoi(argv[a + 2]), atoi(argv[a + 3]), &s); polyseed_data *d = seed_from_ref(&s); if (!d) { printf("cannot load\n"); return 1; }
        uint8_t s0[32]; polyseed_store(d, s0); fb_one(d, &s, s0, atoi(argv[a + 4]), (unsigned)atoi(argv[a + 5]), a + 6 < argc ? atoi(argv[a + 6]) : 0, r);
        for (int i = 0; i < r->nviol; i++) printf("REPRODUCED %s: %s\n", r->v[i].key, r->v[i].msg); return r->nviol ? 1 : 0;
    }
    int NL = polyseed_get_num_langs();
    if (NL != R_NLANG) { printf("{\"parts\":[],\"fatal\":\"language registry has %d entries\"}\n", NL); return 0; }
    /* 1. collect the words the library emits: index i at position 15, tokenise the output */
    for (int li = 0; li < R_NLANG; li++) {
        const char *sep = RL[li].sep; size_t sl = strlen(sep);
        for (unsigned i = 0; i < R_NW; i++) {
            unsigned c[16] = {0}; c[15] = i; rseed s; ref_from_coeffs(c, &s);
            polyseed_data *d = seed_via_create(&s); polyseed_str out;
            size_t n = polyseed_encode(d, polyseed_get_lang(li), 0, out); polyseed_free(d); r->calls += 3;
            if (n != strlen(out)) { res_viol(r, "c17:retlen", "", "encode returned %zu, strlen %zu", n, strlen(out)); }
            char *last = out, *q; while ((q = strstr(last, sep))) last = q + sl;
            EMIT[li][i] = strdup(last);
            char nf[300]; LEN[li][0][i] = strlen(last);
            LEN[li][2][i] = u_nfkd(last, nf, sizeof nf - 1);
            LEN[li][1][i] = LEN[li][2][i];                /* stored form = NFKD of the emitted word (C07 checks that the lists are NFKD-stable) */
        }
    }
    /* 2. exact worst case per language, mask, form */
    size_t worst = 0; char worst_desc[200] = "";
    for (int li = 0; li < R_NLANG; li++) {
        char sepn[16]; size_t sep_raw = strlen(RL[li].sep), sep_nfkd = u_nfkd(RL[li].sep, sepn, sizeof sepn - 1);
        for (unsigned mask = 0; mask < 8; mask++) for (int form = 0; form < 3; form++) {
            size_t total = 0; unsigned wit[16];
            for (int p = 0; p < 16; p++) {
                size_t best = 0; unsigned bi = 0;
                for (unsigned i = 0; i < R_NW; i++) if (admissible(p, i, mask) && LEN[li][form][i] > best) { best = LEN[li][form][i]; bi = i; }
                total += best; wit[p] = bi;
            }
            total += 15 * (form == 2 ? sep_nfkd : sep_raw);
            r->cases++;
            if (total > worst) { worst = total; snprintf(worst_desc, sizeof worst_desc, "%s mask=%u form=%s: %zu bytes", RL[li].code, mask, form == 0 ? "output" : form == 1 ? "encode-temporary" : "nfkd", total); }
            if (total >= PSTR) {
                char key[100], rep[64]; snprintf(key, sizeof key, "c17:bound:%s:%s", RL[li].code, form == 0 ? "output" : form == 1 ? "encode-temporary" : "nfkd"); sprintf(rep, "case %d %u", li, mask);
                res_viol(r, key, rep, "%s phrase can reach %zu bytes in its %s form under mask %u but sizeof(polyseed_str) is %zu", RL[li].name_en, total, form == 0 ? "output" : form == 1 ? "internal decomposed" : "NFKD", mask, PSTR);
                continue;      /* do not execute an overflowing witness */
            }
            r->validated++; r->cls[0]++;
            if (form == 2) continue;
            if (replay_li >= 0 && (li != replay_li || mask != replay_mask)) continue;
            /* 3. witnesses. (i) positions 1..15 at their maxima with whatever check word results;
             *    (ii) an EXACT extremal phrase: data words drawn from the per-position sets of longest words until the
             *    resulting check word is itself one of the longest, so the phrase attains the computed bound to the byte */
            polyseed_enable_features(mask);
            for (int exact = 0; exact < 2; exact++) {
                unsigned c[16]; memcpy(c, wit, sizeof c); c[0] = 0;
                size_t expect_len = 0;
                if (exact) {
                    size_t mx[16]; for (int p = 0; p < 16; p++) mx[p] = LEN[li][form][wit[p]];
                    /* per-position sets of longest admissible words */
                    static unsigned SET[16][R_NW]; int ns[16];
                    for (int p = 0; p < 16; p++) { ns[p] = 0; for (unsigned i = 0; i < R_NW; i++) if (admissible(p, i, mask) && LEN[li][form][i] == mx[p]) SET[p][ns[p]++] = i; }
                    double combos = 1; for (int p = 1; p < 16; p++) { combos *= ns[p]; if (combos > 1e9) combos = 1e9; }
                    long tries = combos < 200000 ? (long)combos : 200000;
                    uint64_t ps = 0x3A7 + (uint64_t)li * 131 + mask * 7 + (uint64_t)form; int found = 0;
                    for (long attempt = 0; attempt < tries && !found; attempt++) {
                        if (combos < 200000) { long y = attempt; for (int p = 1; p < 16; p++) { c[p] = SET[p][y % ns[p]]; y /= ns[p]; } }   /* enumerate all combinations */
                        else for (int p = 1; p < 16; p++) c[p] = SET[p][prng(&ps) % (unsigned)ns[p]];
                        c[0] = 0; unsigned c0 = ref_eval(c);
                        if (LEN[li][form][c0] == mx[0]) found = 1;
                    }
                    if (!found) { if (r->nsample < 5) res_sample(r, "%s mask=%u form=%d: no check word of maximal length among the combinations tried (bound not shown to be attained)", RL[li].code, mask, form); continue; }
                    expect_len = total;
                }
                c[0] = 0;
                rseed s; ref_from_coeffs(c, &s);
                polyseed_data *d = seed_via_create(&s); r->calls++;
                if (!d) { res_viol(r, "c17:witness-create", "", "cannot create witness seed"); continue; }
                struct { polyseed_str out; uint8_t canary[32]; } b; memset(&b, 0x6B, sizeof b);
                size_t n = polyseed_encode(d, polyseed_get_lang(li), 0, b.out); r->calls++;
                int bad = 0;
                for (int i = 0; i < 32; i++) if (b.canary[i] != 0x6B) bad = 1;
                if (n >= PSTR || strnlen(b.out, PSTR) != n) bad |= 2;
                /* the emitted phrase must be the reference phrase (a dropped or truncated word shows here) */
                { char refph[2048]; size_t rn = ref_phrase(&s, li, 0, refph, 0); if (!bad && (rn != n || memcmp(refph, b.out, n))) bad |= 16; }
                if (exact && !bad) { size_t got = form == 0 ? n : 0; if (form == 1) { char raw[2048]; got = ref_phrase(&s, li, 0, raw, 1); } if (got != expect_len) bad |= 32; }
                if (!bad) { polyseed_str again; E.fail_at = E.alloc_seq; size_t n2 = polyseed_encode(d, polyseed_get_lang(li), 0, again); E.fail_at = -1; r->calls++; if (n2 != n || memcmp(again, b.out, n + 1)) bad |= 64; }
                polyseed_data *e = NULL; int st = (bad & 3) ? -1 : polyseed_decode_explicit(b.out, 0, polyseed_get_lang(li), &e); r->calls++;
                uint8_t s0[32], s1[32]; polyseed_store(d, s0); if (st == POLYSEED_OK) { polyseed_store(e, s1); polyseed_free(e); if (memcmp(s0, s1, 32)) bad |= 8; } else bad |= 4;
                polyseed_free(d);
                r->cases++;
                r->digest ^= mix64(li * 8 + mask, n);
                if (bad) { char key[100], rep[64]; snprintf(key, sizeof key, "c17:witness:%s", RL[li].code); sprintf(rep, "case %d %u", li, mask); res_viol(r, key, rep, "%s %s phrase (encode returned %zu bytes): flags %d (1=overrun 2=length 4=decode failed 8=different seed 16=not the reference phrase 32=bound not attained 64=differs under a refusing allocator)", exact ? "exactly extremal" : "near-extremal", RL[li].name_en, n, bad); }
                else { r->validated++; r->cls[1]++; if (r->nsample < 3 && exact && (li == 1 || li == 2) && mask == 7) res_sample(r, "exact extremal witness %s mask=%u form=%s: computed bound %zu bytes attained, encode returned %zu bytes, decodes to the same seed", RL[li].code, mask, form ? "internal" : "output", expect_len, n); }
            }
        }
    }
    polyseed_enable_features(7);
    /* the public constant is usable in any expression: it is one value, whatever stands next to it */
    { volatile size_t two = 2, seven = 7; r->cases++;
      if (two * POLYSEED_STR_SIZE != two * sizeof(polyseed_str) || POLYSEED_STR_SIZE * two != sizeof(polyseed_str) * two || 4096 - POLYSEED_STR_SIZE != 4096 - sizeof(polyseed_str) || 4352 / POLYSEED_STR_SIZE != 4352 / sizeof(polyseed_str) || POLYSEED_STR_SIZE % seven != sizeof(polyseed_str) % seven || 4352 % POLYSEED_STR_SIZE != 4352 % sizeof(polyseed_str) || -POLYSEED_STR_SIZE != -(long)sizeof(polyseed_str) || (size_t)POLYSEED_STR_SIZE != sizeof(polyseed_str))
          res_viol(r, "c17:public-constant", "", "POLYSEED_STR_SIZE does not behave as the single value %zu inside an expression (2 * POLYSEED_STR_SIZE = %zu): a table of N phrase buffers sized N * POLYSEED_STR_SIZE is too small", sizeof(polyseed_str), (size_t)(two * POLYSEED_STR_SIZE));
      else { r->validated++; r->cls[0]++; } }
    /* 4. the returned length is the length of what was written, for every coin (the coin changes the second word after any
     *    length the encoder may have computed), and every produced phrase goes back through both decoders untruncated */
    if (replay_li < 0 || replay_li >= 100) {
        long NS = G_thorough ? 6000 : 400; static const unsigned COINS[] = { 0, 1, 2, 1023, 1024, 2047 };
        uint64_t ps = 0xFEED + (uint64_t)G_seed;
        for (long x = 0; x < NS; x++) {
            rseed s; for (int i = 0; i < 19; i++) s.secret[i] = (uint8_t)prng(&ps); s.secret[18] &= 0x3F; s.birthday = (unsigned)(prng(&ps) & 1023); s.features = (unsigned)(prng(&ps) & 7) | ((x & 3) == 3 ? 16 : 0);
            polyseed_data *d = seed_from_ref(&s); r->calls++; if (!d) { res_viol(r, "c17:feedback-setup", "", "cannot load"); continue; }
            uint8_t s0[32]; polyseed_store(d, s0);
            for (int li = 0; li < R_NLANG; li++) for (unsigned ci = 0; ci < 7; ci++) {
                unsigned coin = ci < 6 ? COINS[ci] : (unsigned)(prng(&ps) & 2047);
                fb_one(d, &s, s0, li, coin, (int)((x + li + ci) & 1), r);
            }
            polyseed_free(d);
        }
        res_sample(r, "%ld seeds x 10 languages x 7 coins: returned length = strlen, phrase accepted again by both decoders", NS);
    }
    res_sample(r, "largest bound: %s ; sizeof(polyseed_str)=%zu", worst_desc, PSTR);
    if (replay_li >= 0) { for (int i = 0; i < r->nviol; i++) printf("REPRODUCED %s: %s\n", r->v[i].key, r->v[i].msg); printf("%s\n", worst_desc); return r->nviol ? 1 : 0; }
    out_begin();
    out_part("per-position maxima summed: 10 languages x 8 masks x 3 forms, + witnesses", r, CLS, "exact over all 2048^15 data-word combinations because the phrase length is a sum of independent per-position terms");
    out_kv_int("worst_case_bytes", (long long)worst); out_kv_int("buffer_size", (long long)PSTR);
    out_end();
    return 0;
}
