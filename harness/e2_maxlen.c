/* E2 family "maxlen" (C17): the public buffer size bounds every phrase.
 * The words are taken from the library itself (encode output), per language x position the maximum
 * length over the admissible index set of that position is summed (exact worst case over all
 * 2048^15 data-word combinations), for the composed output form, the internal temporary of encode
 * (stored words + raw separator) and the decoder's NFKD form, under all 8 enabled masks.
 * Witness seeds attaining the per-position maxima are then encoded and decoded under ASan. */
#include "h.h"

static const char *CLS[] = { "bound_holds(lang x mask x form)", "witness_encoded_and_decoded", NULL };
static size_t LEN[R_NLANG][3][R_NW];   /* form 0 = emitted (NFC if composing), 1 = stored/decomposed, 2 = NFKD */
static char *EMIT[R_NLANG][R_NW];

static int admissible(int p, unsigned idx, unsigned mask) {
    if (p == 2) return !(idx & 1);                       /* reserved feature bit */
    if (p >= 3 && p <= 5) { unsigned bit = 1u << (5 - p); return !(idx & 1) || (mask & bit); }
    return 1;                                            /* positions 0, 1 (coin xor reaches every index), 6..15 */
}

int main(int argc, char **argv) {
    int a = common_args(argc, argv); (void)a;
    ref_init(VERIF_ROOT); sec_mark_initial(); env_init(); inject(0);
    polyseed_enable_features(7);
    struct res *r = calloc(1, sizeof *r);
    int replay_li = -1; unsigned replay_mask = 0;
    if (a < argc && !strcmp(argv[a], "case")) { replay_li = atoi(argv[a + 1]); replay_mask = atoi(argv[a + 2]); }
    int NL = polyseed_get_num_langs();
    if (NL != R_NLANG) { printf("{\"parts\":[],\"fatal\":\"language registry has %d entries\"}\n", NL); return 0; }
    /* 1. collect the words the library emits: index i at position 15, tokenise the output */
    for (int li = 0; li < R_NLANG; li++) {
        const char *sep = RL[li].sep; size_t sl = strlen(sep);
        for (unsigned i = 0; i < R_NW; i++) {
            unsigned c[16] = {0}; c[15] = i; rseed s; ref_from_coeffs(c, &s);
            polyseed_data *d = seed_via_create(&s); polyseed_str out;
            size_t n = polyseed_encode(d, polyseed_get_lang(li), 0, out); polyseed_free(d); r->calls += 3;
            if (n != strlen(out)) { res_viol(r, "c17:retlen", "", "encode returned %zu, strlen %zu", n, strlen(out)); }
            char *last = out, *q; while ((q = strstr(last, sep))) last = q + sl;
            EMIT[li][i] = strdup(last);
            char nf[300]; LEN[li][0][i] = strlen(last);
            LEN[li][2][i] = u_nfkd(last, nf, sizeof nf - 1);
            LEN[li][1][i] = LEN[li][2][i];                /* stored form = NFKD of the emitted word (C07 checks that the lists are NFKD-stable) */
        }
    }
    /* 2. exact worst case per language, mask, form */
    size_t worst = 0; char worst_desc[200] = "";
    for (int li = 0; li < R_NLANG; li++) {
        char sepn[16]; size_t sep_raw = strlen(RL[li].sep), sep_nfkd = u_nfkd(RL[li].sep, sepn, sizeof sepn - 1);
        for (unsigned mask = 0; mask < 8; mask++) for (int form = 0; form < 3; form++) {
            size_t total = 0; unsigned wit[16];
            for (int p = 0; p < 16; p++) {
                size_t best = 0; unsigned bi = 0;
                for (unsigned i = 0; i < R_NW; i++) if (admissible(p, i, mask) && LEN[li][form][i] > best) { best = LEN[li][form][i]; bi = i; }
                total += best; wit[p] = bi;
            }
            total += 15 * (form == 2 ? sep_nfkd : sep_raw);
            r->cases++;
            if (total > worst) { worst = total; snprintf(worst_desc, sizeof worst_desc, "%s mask=%u form=%s: %zu bytes", RL[li].code, mask, form == 0 ? "output" : form == 1 ? "encode-temporary" : "nfkd", total); }
            if (total >= PSTR) {
                char key[100], rep[64]; snprintf(key, sizeof key, "c17:bound:%s:%s", RL[li].code, form == 0 ? "output" : form == 1 ? "encode-temporary" : "nfkd"); sprintf(rep, "case %d %u", li, mask);
                res_viol(r, key, rep, "%s phrase can reach %zu bytes in its %s form under mask %u but sizeof(polyseed_str) is %zu", RL[li].name_en, total, form == 0 ? "output" : form == 1 ? "internal decomposed" : "NFKD", mask, PSTR);
                continue;      /* do not execute an overflowing witness */
            }
            r->validated++; r->cls[0]++;
            if (form != 1) continue;
            if (replay_li >= 0 && (li != replay_li || mask != replay_mask)) continue;
            /* 3. witness: positions 1..15 at their maxima (position 0 is the resulting check word) */
            polyseed_enable_features(mask);
            unsigned c[16]; memcpy(c, wit, sizeof c); c[0] = 0;
            rseed s; ref_from_coeffs(c, &s);
            polyseed_data *d = seed_via_create(&s); r->calls++;
            if (!d) { res_viol(r, "c17:witness-create", "", "cannot create witness seed"); continue; }
            struct { polyseed_str out; uint8_t canary[32]; } b; memset(&b, 0x6B, sizeof b);
            size_t n = polyseed_encode(d, polyseed_get_lang(li), 0, b.out); r->calls++;
            int bad = 0;
            for (int i = 0; i < 32; i++) if (b.canary[i] != 0x6B) bad = 1;
            if (n >= PSTR || strnlen(b.out, PSTR) != n) bad |= 2;
            polyseed_data *e = NULL; int st = bad ? -1 : polyseed_decode_explicit(b.out, 0, polyseed_get_lang(li), &e); r->calls++;
            uint8_t s0[32], s1[32]; polyseed_store(d, s0); if (st == POLYSEED_OK) { polyseed_store(e, s1); polyseed_free(e); if (memcmp(s0, s1, 32)) bad |= 8; } else bad |= 4;
            polyseed_free(d);
            r->cases++;
            r->digest ^= mix64(li * 8 + mask, n);
            if (bad) { char key[100], rep[64]; snprintf(key, sizeof key, "c17:witness:%s", RL[li].code); sprintf(rep, "case %d %u", li, mask); res_viol(r, key, rep, "extremal %s phrase (%zu bytes): flags %d (1=overrun 2=length 4=decode failed 8=different seed)", RL[li].name_en, n, bad); }
            else { r->validated++; r->cls[1]++; if (r->nsample < 3 && (li == 1 || li == 2) && mask == 7) res_sample(r, "witness %s mask=%u: encode returned %zu bytes, decodes to the same seed", RL[li].code, mask, n); }
        }
    }
    polyseed_enable_features(7);
    res_sample(r, "largest bound: %s ; sizeof(polyseed_str)=%zu", worst_desc, PSTR);
    if (replay_li >= 0) { for (int i = 0; i < r->nviol; i++) printf("REPRODUCED %s: %s\n", r->v[i].key, r->v[i].msg); printf("%s\n", worst_desc); return r->nviol ? 1 : 0; }
    out_begin();
    out_part("per-position maxima summed: 10 languages x 8 masks x 3 forms, + witnesses", r, CLS, "exact over all 2048^15 data-word combinations because the phrase length is a sum of independent per-position terms");
    out_kv_int("worst_case_bytes", (long long)worst); out_kv_int("buffer_size", (long long)PSTR);
    out_end();
    return 0;
}
