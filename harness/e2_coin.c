/* E2 family "coin" (C05): a phrase encoded for coin A decodes only for coin A.
 * English: all 2048 x 2048 ordered pairs per seed. Other languages: all B for a set of A
 * (quick: 32 values of A; thorough: all A).  Word-wise difference of phrases checked for every A. */
#include "h.h"

static const char *CLS[] = { "other_coin_checksum_error", "same_coin_ok", "phrases_differ_in_word2_only", NULL };
#define MAXS 80
static rseed SEEDS[MAXS]; static int NS;
static int KO_EXTREMAL = -1; static unsigned KO_C1;
static int LANG_A_ALL[R_NLANG];     /* 1 = all A, 0 = 32 values of A */
static unsigned A_SUBSET[32];

static int tokens(char *s, const char *sep, char *tok[20]) {
    int n = 0; size_t sl = strlen(sep); char *p = s;
    for (;;) { tok[n++] = p; char *q = strstr(p, sep); if (!q || n >= 20) break; *q = 0; p = q + sl; }
    return n;
}
static void one_A(int si, int li, unsigned A, struct res *r, long x, int full) {
    const polyseed_lang *lang = polyseed_get_lang(li);
    /* the same abstract seed through load or, for every fourth coin, through create with argument bits above the three feature bits set
     * (documented as ignored) plus crypt with a zero mask for the encrypted flag */
    polyseed_data *s = NULL;
    if ((A & 3) == 1 && !(SEEDS[si].features & 8)) { extern uint64_t E_create_clock_shift; E_create_high_bits = (A & 4) ? 0xFFFFFFF8u : 0x8; E_create_clock_shift = (A & 8) ? (uint64_t)(1 + (A >> 4) % 3) * 1024 * R_STEP : 0;      /* clocks one to three ranges later: same month index */
        s = seed_via_create(&SEEDS[si]); E_create_high_bits = 0; E_create_clock_shift = 0; }
    if (!s) s = seed_from_ref(&SEEDS[si]);
    r->calls++;
    if (!s) { res_viol(r, "c05:setup", "", "cannot load seed"); return; }
    polyseed_str phA, ph0; uint8_t st0[32], stm[32]; polyseed_store(s, st0); ref_storage(&SEEDS[si], stm);
    if (memcmp(st0, stm, 32)) { res_viol(r, "c05:setup-seed", "", "the seed under test (made by %s) does not serialise to the model seed", (A & 3) == 1 ? "create" : "load"); polyseed_free(s); ledger_drop_all(); return; }
    /* the phrase for A restores under exactly the seed's own user features, too (nothing else is needed to read it back) */
    { polyseed_str pm; polyseed_encode(s, lang, (polyseed_coin)A, pm); polyseed_enable_features((SEEDS[si].features & 7) | ((A & 32) ? 0xFFFFFFF8u : (A & 64) ? 0x10u : 0)); polyseed_data *dm = NULL; int sm = polyseed_decode_explicit(pm, (polyseed_coin)A, lang, &dm); polyseed_enable_features((A & 16) ? 0xFFFFFFFFu : 7); r->calls += 2;   /* "only the least significant 3 bits are used": the argument's other bits vary with the coin and change nothing */
      if (sm == POLYSEED_OK) polyseed_free(dm); else { char rp[120], hh[40]; hex(SEEDS[si].secret, 19, hh); sprintf(rp, "case %s %u %u %d %u %u", hh, SEEDS[si].birthday, SEEDS[si].features, li, A, A); res_viol(r, "c05:samecoin-own-features", rp, "phrase for coin %u decoded for the same coin with exactly the seed's user features enabled: status %d", A, sm); } }
    polyseed_encode(s, lang, (polyseed_coin)A, phA); polyseed_encode(s, lang, 0, ph0); r->calls += 3;
    char rep[200], key[100], h[40]; hex(SEEDS[si].secret, 19, h);
    /* word-wise difference against the coin-0 phrase */
    {
        char a[PSTR], b[PSTR]; char *ta[20], *tb[20]; strcpy(a, phA); strcpy(b, ph0);
        int na = tokens(a, RL[li].sep, ta), nb = tokens(b, RL[li].sep, tb);
        int bad = (na != 16 || nb != 16);
        for (int i = 0; i < 16 && !bad; i++) { int same = !strcmp(ta[i], tb[i]); if (i == 1 ? (same != (A == 0)) : !same) bad = 1; }
        /* word 2 must be the list word with index c1 ^ A */
        unsigned c[16]; ref_coeffs(&SEEDS[si], c);
        if (!bad) { char nf[256]; u_nfkd(ta[1], nf, sizeof nf - 1); if (ref_recognise(li, nf) != (int)(c[1] ^ A) || strcmp(nf, RL[li].w[c[1] ^ A])) bad = 2; }
        r->cases++;
        if (bad) { sprintf(rep, "case %s %u %u %d %u %u", h, SEEDS[si].birthday, SEEDS[si].features, li, A, A); snprintf(key, sizeof key, "c05:worddiff:%s", RL[li].code); res_viol(r, key, rep, "phrases for coin %u and coin 0 do not differ in exactly the second word (%d)", A, bad); }
        else { r->validated++; r->cls[2]++; }
    }
    /* full: every B; otherwise A itself and five neighbours (every list word still appears as the second word of a phrase that must decode for its own coin) */
    for (unsigned Bi = 0; Bi < (full ? 2048u : 6u); Bi++) {
        unsigned B = full ? Bi : Bi == 0 ? A : Bi == 1 ? (A ^ 1) : Bi == 2 ? (A ^ 1024) : Bi == 3 ? ((A + 1) & 2047) : Bi == 4 ? (A ^ 2047) : ((A * 29 + 7) & 2047); if (!full && Bi && B == A) continue;
        polyseed_data *d = NULL;
        int st = polyseed_decode_explicit(phA, (polyseed_coin)B, lang, &d); r->calls++; r->cases++;
        r->digest ^= mix64((uint64_t)x * 2048 + B, st);
        /* automatic detection is bound to the coin in the same way: for A itself and for three wrong coins the reference detector decides */
        if (B == A || B == (A ^ 1) || B == (A ^ 128) || B == (A ^ 1024)) {
            const polyseed_lang *lo_ = NULL; polyseed_data *da = NULL; int as = polyseed_decode(phA, (polyseed_coin)B, &lo_, &da); r->calls++; r->cases++;
            uint8_t ga[32], ea[32]; memset(ga, 0, 32); memset(ea, 0, 32); if (as == POLYSEED_OK) { polyseed_store(da, ga); polyseed_free(da); }
            rseed ra; int ml = -1; int ma = ref_decode(phA, B, -1, 7, 0, CAP, &ra, &ml); if (ma == 0) ref_storage(&ra, ea);
            if (as != ma || memcmp(ga, ea, 32) || (as == POLYSEED_OK && lang_index(lo_) != ml)) { sprintf(rep, "case %s %u %u %d %u %u", h, SEEDS[si].birthday, SEEDS[si].features, li, A, B); snprintf(key, sizeof key, "c05:auto:%s", RL[li].code);
                res_viol(r, key, rep, "phrase for coin %u through automatic detection for coin %u: status %d (language %d), the reference detector says %d (language %d)%s", A, B, as, as == 0 ? lang_index(lo_) : -1, ma, ml, as == 0 && ma == 0 && memcmp(ga, ea, 32) ? ", another seed" : ""); }
            else r->validated++;
        }
        if (B != A) {
            if (st == POLYSEED_OK) polyseed_free(d);
            if (st != POLYSEED_ERR_CHECKSUM) { sprintf(rep, "case %s %u %u %d %u %u", h, SEEDS[si].birthday, SEEDS[si].features, li, A, B); snprintf(key, sizeof key, "c05:wrongcoin:%s", RL[li].code); res_viol(r, key, rep, "phrase for coin %u decoded for coin %u returned %d", A, B, st); }
            else { r->validated++; r->cls[0]++; }
        } else {
            uint8_t st1[32]; memset(st1, 0, 32);
            int reenc_bad = 0;
            if (st == POLYSEED_OK) { polyseed_store(d, st1); polyseed_str again; polyseed_encode(d, lang, (polyseed_coin)A, again); if (strcmp(again, phA)) reenc_bad = 1; polyseed_encode(d, lang, 0, again); if (strcmp(again, ph0)) reenc_bad = 1; polyseed_free(d); r->calls += 4; }
            if (reenc_bad) { sprintf(rep, "case %s %u %u %d %u %u", h, SEEDS[si].birthday, SEEDS[si].features, li, A, B); snprintf(key, sizeof key, "c05:reencode:%s", RL[li].code); res_viol(r, key, rep, "the seed restored from the phrase for coin %u does not encode to the same phrases (for coin %u and for coin 0) as the original seed", A, A); }
            else if (st != POLYSEED_OK || memcmp(st0, st1, 32)) { sprintf(rep, "case %s %u %u %d %u %u", h, SEEDS[si].birthday, SEEDS[si].features, li, A, B); snprintf(key, sizeof key, "c05:samecoin:%s", RL[li].code); res_viol(r, key, rep, "phrase for coin %u decoded for the same coin: status %d or different seed", A, st); }
            else { r->validated++; r->cls[1]++; }
        }
    }
    /* a phrase carrying a user feature that is NOT enabled when it is restored: a wrong coin is still a checksum error
     * (checksum before unsupported), the right coin gives the unsupported status */
    if (SEEDS[si].features & 7) {
        polyseed_enable_features(0);
        for (unsigned k = 0; k < 48; k++) {
            unsigned B = k < 11 ? (A ^ (1u << k)) : k == 11 ? A : (unsigned)((A * 37 + k * 101) & 2047);
            polyseed_data *d = NULL; int st = polyseed_decode_explicit(phA, (polyseed_coin)B, lang, &d); r->calls++; r->cases++;
            if (st == POLYSEED_OK) polyseed_free(d);
            int want = (B == A) ? POLYSEED_ERR_UNSUPPORTED : POLYSEED_ERR_CHECKSUM;
            if (st != want) { sprintf(rep, "case %s %u %u %d %u %u", h, SEEDS[si].birthday, SEEDS[si].features, li, A, B); snprintf(key, sizeof key, "c05:wrongcoin-disabled-feature:%s", RL[li].code); res_viol(r, key, rep, "phrase for coin %u with user features %u, none enabled, decoded for coin %u returned %d (expected %d)", A, SEEDS[si].features & 7, B, st, want); break; }
            r->validated++; r->cls[B == A ? 1 : 0]++;
        }
        polyseed_enable_features((A & 16) ? 0xFFFFFFFFu : 7);
    }
    polyseed_free(s);
    if (ledger_live()) { res_viol(r, "c05:leak", "", "ledger not empty"); ledger_drop_all(); }
}
struct job { int si, li; unsigned A; int full; };
static struct job *JOBS; static long NJ;
static void work(long lo, long hi, struct res *r, void *arg) {
    (void)arg;
    for (long x = lo; x < hi; x++) {
        if (past_deadline()) { r->timed_out = 1; return; }
        extern char *G_cur; if (G_cur) sprintf(G_cur, "job seed=%d lang=%d A=%u", JOBS[x].si, JOBS[x].li, JOBS[x].A);
        one_A(JOBS[x].si, JOBS[x].li, JOBS[x].A, r, x, JOBS[x].full);
    }
    if (r->nsample < 1 && lo < hi) res_sample(r, "seed #%d lang=%s: phrase for coin A=%u decoded for every B in 0..2047", JOBS[lo].si, RL[JOBS[lo].li].code, JOBS[lo].A);
}

int main(int argc, char **argv) {
    int a = common_args(argc, argv);
    ref_init(VERIF_ROOT); sec_mark_initial(); env_init(); inject(0);
    polyseed_enable_features(7);
    struct res *r = calloc(1, sizeof *r);
    if (a < argc && !strcmp(argv[a], "case")) {   /* case <secret> <birthday> <features> <lang> <A> <B> */
        rseed s; parse_rseed(argv[a + 1], atoi(argv[a + 2]), atoi(argv[a + 3]), &s);
        int li = atoi(argv[a + 4]); unsigned A = atoi(argv[a + 5]), B = atoi(argv[a + 6]);
        polyseed_data *sd = seed_from_ref(&s), *d = NULL; polyseed_str ph, ph0;
        polyseed_encode(sd, polyseed_get_lang(li), A, ph); polyseed_encode(sd, polyseed_get_lang(li), 0, ph0);
        int st = polyseed_decode_explicit(ph, B, polyseed_get_lang(li), &d);
        printf("coin %u: %s\ncoin 0: %s\ndecode for coin %u -> %d\n", A, ph, ph0, B, st);
        SEEDS[0] = s; NS = 1; one_A(0, li, A, r, 0, 1);
        for (int i = 0; i < r->nviol; i++) printf("REPRODUCED %s: %s\n", r->v[i].key, r->v[i].msg);
        return r->nviol ? 1 : 0;
    }
    /* seeds: word-2 index all clear / all set / alternating, then pseudo-random */
    uint64_t ps = 0xC01 + (uint64_t)G_seed;
    NS = G_thorough ? 4 : 2;
    for (int i = 0; i < NS; i++) {
        rseed *s = &SEEDS[i]; memset(s, 0, sizeof *s);
        if (i == 1) { memset(s->secret, 0xFF, 19); s->secret[18] = 0x3F; s->birthday = 1023; s->features = 23; }
        if (i >= 2) { for (int j = 0; j < 19; j++) s->secret[j] = (uint8_t)prng(&ps); s->secret[18] &= 0x3F; s->birthday = prng(&ps) & 1023; s->features = prng(&ps) & 23; }
    }
    for (int i = 0; i < 32; i++) A_SUBSET[i] = (i < 11) ? (1u << i) : (i == 11 ? 0 : i == 12 ? 2047 : (unsigned)(prng(&ps) & 2047));
    for (int li = 0; li < R_NLANG; li++) LANG_A_ALL[li] = (li == 0) || (G_thorough && li < 8);
    /* an extra seed for Korean: every data word and the check word among the longest decomposed words, so that the
     * phrase has the maximal length for the coins that keep word 2 among them */
    {
        size_t mx = 0; unsigned set[R_NW]; int ns = 0;
        for (unsigned i = 0; i < R_NW; i++) if (RL[2].wlen[i] > mx) mx = RL[2].wlen[i];
        for (unsigned i = 0; i < R_NW; i++) if (RL[2].wlen[i] == mx && !(i & 1)) set[ns++] = i;
        for (long attempt = 0; attempt < 400000 && ns > 1; attempt++) {
            unsigned c[16]; for (int p = 1; p < 16; p++) c[p] = set[prng(&ps) % (unsigned)ns]; c[0] = 0; unsigned c0 = ref_eval(c);
            if (RL[2].wlen[c0] == mx) { c[0] = c0; ref_from_coeffs(c, &SEEDS[NS]); KO_EXTREMAL = NS; KO_C1 = c[1]; NS++; break; }
        }
    }
    /* 64 more seeds (the first word of a phrase - the check word - depends on the seed, not on the coin): four coins each, every language, A and a handful of B */
    int first_extra = NS; for (int i = 0; i < 64 && NS < MAXS; i++) { rseed *s = &SEEDS[NS++]; memset(s, 0, sizeof *s); for (int j = 0; j < 19; j++) s->secret[j] = (uint8_t)prng(&ps); s->secret[18] &= 0x3F; s->birthday = prng(&ps) & 1023; s->features = prng(&ps) & 23; }
    JOBS = malloc(sizeof(struct job) * ((NS + 1) * R_NLANG * 4 + 4 * R_NLANG * (2048 + 2048 + 32)));
    for (int si = 0; si < NS; si++) for (int li = 0; li < R_NLANG; li++) {
        if (si >= first_extra) { for (int q = 0; q < 4; q++) JOBS[NJ++] = (struct job){ si, li, (unsigned)((si * 397 + q * 613 + li * 31) & 2047), 0 }; continue; }
        if (si == KO_EXTREMAL) { if (li == 2) { size_t mx = 0; for (unsigned i = 0; i < R_NW; i++) if (RL[2].wlen[i] > mx) mx = RL[2].wlen[i]; for (unsigned A = 0; A < 2048; A++) if (RL[2].wlen[KO_C1 ^ A] == mx) JOBS[NJ++] = (struct job){ si, li, A, 1 }; } continue; }
        int all = LANG_A_ALL[li] && (li == 0 || si < 2);
        if (li >= 8 && si >= 2) continue;       /* Chinese (linear search): two seeds */
        if (all) for (unsigned A = 0; A < 2048; A++) JOBS[NJ++] = (struct job){ si, li, A, 1 };
        else { for (int i = 0; i < 32; i++) JOBS[NJ++] = (struct job){ si, li, A_SUBSET[i], 1 };
               if (si < 2) for (unsigned A = 0; A < 2048; A++) JOBS[NJ++] = (struct job){ si, li, A, 0 }; }      /* every A, a handful of B */
    }
    out_begin();
    par_run(NJ, work, NULL, r);
    out_part("ordered coin pairs (A encodes, B decodes)", r, CLS, "English: all 2048 x 2048 pairs per seed; other languages: 32 values of A (quick) or all A (thorough, sorted lists) x all B, and every A x {A, five other B}");
    out_kv_int("seeds", NS); out_kv_int("jobs_A", NJ);
    out_end();
    return 0;
}
