/* E2 family "long" (C13, C15): long canonical histories.  The explicit-state search is bounded by its
 * alphabet and slot count, so anything that depends on HOW MANY calls were made or how many seeds
 * are alive at once (a counter that wraps after 256 or 65 536 calls, a fixed-size table of live
 * seeds, a cache that fills up) is outside it.  This program enumerates that one dimension: every
 * call count 1..N of each constructor / operation in a fixed cyclic pattern, and every number
 * 0..LIVE_MAX of simultaneously live seeds (released in four different orders), with the reference
 * model and the ledger compared at every step.  One deterministic history per part; the enumerated
 * factor is the length. */
#include "h.h"
static const char *CLS[] = { "steps_matching_model", NULL };
#define LIVE_MAX 300
static polyseed_data *S[LIVE_MAX]; static rseed M[LIVE_MAX];

static void tape_for_n(uint64_t n, uint8_t t[32]) { uint64_t h = 0xC0DE + n * 0x9E3779B97F4A7C15ULL; for (int i = 0; i < 32; i++) { h = mix64(h, (uint64_t)i); t[i] = (uint8_t)(h >> 17); } }
static int same(polyseed_data *d, const rseed *m) { uint8_t a[32], b[32]; polyseed_store(d, a); ref_storage(m, b); return !memcmp(a, b, 32); }
/* create seed number n (distinct random bytes, month and features for each n); returns 0 ok */
static int make(uint64_t n, polyseed_data **out, rseed *m, struct res *r, const char *part) {
    tape_for_n(n, E.tape[0]); E.clock[0] = R_EPOCH + (n % 1024) * R_STEP + (n % 1000);
    unsigned f = (unsigned)(n % 8);
    polyseed_data *d = NULL; int st = polyseed_create(f, &d); r->calls++;
    char rep[80], key[80]; snprintf(rep, sizeof rep, "%s %llu", part, (unsigned long long)n);
    if (st != POLYSEED_OK) { snprintf(key, sizeof key, "c13:long:%s:create-status", part); res_viol(r, key, rep, "create number %llu returned %d", (unsigned long long)n, st); return 1; }
    memset(m, 0, sizeof *m); memcpy(m->secret, E.tape[0], 19); m->secret[18] &= 0x3F; m->birthday = (unsigned)(n % 1024); m->features = f;
    if (!same(d, m)) { snprintf(key, sizeof key, "c13:long:%s:create-seed", part); res_viol(r, key, rep, "seed number %llu made by create differs from the model", (unsigned long long)n); polyseed_free(d); return 1; }
    *out = d; return 0;
}
static int ledger_is(int want, uint64_t n, struct res *r, const char *part) {
    if (ledger_live() == want && !E.err_foreign_free && !E.err_free_null && !E.err_free_unwiped && !E.err_free_dirty) return 0;
    char rep[80], key[80]; snprintf(rep, sizeof rep, "%s %llu", part, (unsigned long long)n); snprintf(key, sizeof key, "c15:long:%s:ledger", part);
    res_viol(r, key, rep, "after step %llu: %d blocks live, expected %d; foreign frees %d, free(NULL) %d, unwiped releases %d", (unsigned long long)n, ledger_live(), want, E.err_foreign_free, E.err_free_null, E.err_free_unwiped + E.err_free_dirty);
    return 1;
}

/* part 1: 0..LIVE_MAX seeds alive at once; after each creation (and each release) every 16th step all live seeds are compared with the model */
static void many_live(struct res *r) {
    for (int order = 0; order < 4; order++) {
        int n = 0;
        for (; n < LIVE_MAX; n++) {
            r->cases++;
            if (make((uint64_t)order * 1000 + (uint64_t)n, &S[n], &M[n], r, "live")) { for (int i = 0; i < n; i++) polyseed_free(S[i]); ledger_drop_all(); return; }
            if (ledger_is(n + 1, (uint64_t)n, r, "live")) { ledger_drop_all(); return; }
            if (n % 16 == 15 || n == LIVE_MAX - 1) for (int i = 0; i <= n; i++) if (!same(S[i], &M[i])) { char rep[80]; snprintf(rep, sizeof rep, "live %d", n); res_viol(r, "c13:long:live:other-seed-changed", rep, "with %d seeds alive, seed %d no longer equals the model", n + 1, i); ledger_drop_all(); return; }
            r->validated++; r->cls[0]++;
        }
        /* operate on a few of them while all are alive */
        for (int i = 0; i < LIVE_MAX; i += 37) { polyseed_crypt(S[i], "pw"); ref_crypt(&M[i], E.mask); r->calls++; }
        for (int i = 0; i < LIVE_MAX; i++) if (!same(S[i], &M[i])) { char rep[80]; snprintf(rep, sizeof rep, "live-crypt %d", i); res_viol(r, "c13:long:live:crypt", rep, "after the password operation on every 37th of %d live seeds, seed %d differs from the model", LIVE_MAX, i); ledger_drop_all(); return; }
        /* release: first-in-first-out, last-in-first-out, even then odd, from the middle outwards */
        int left = LIVE_MAX; static int alive[LIVE_MAX]; for (int i = 0; i < LIVE_MAX; i++) alive[i] = 1;
        for (int k = 0; k < LIVE_MAX; k++) {
            int i = order == 0 ? k : order == 1 ? LIVE_MAX - 1 - k : order == 2 ? (k < LIVE_MAX / 2 ? 2 * k : 2 * (k - LIVE_MAX / 2) + 1) : (k & 1 ? LIVE_MAX / 2 + (k + 1) / 2 : LIVE_MAX / 2 - k / 2);
            if (i < 0 || i >= LIVE_MAX || !alive[i]) { for (i = 0; i < LIVE_MAX && !alive[i]; i++) { } }
            { void *blk = S[i]; polyseed_free(S[i]); alive[i] = 0; left--; r->calls++; r->cases++;
              for (int q = 0; q < E.nlive; q++) if (E.live[q].p == blk) { const uint8_t *bb = blk; int dirty = 0; for (size_t z = 0; z < E.live[q].n; z++) dirty |= bb[z];
                  if (dirty) { char rep[80]; snprintf(rep, sizeof rep, "release %d", k); res_viol(r, "c16:long:free-left-data", rep, "with %d seeds alive, polyseed_free of seed %d neither wiped nor released its block: the secret is still in memory", left + 1, i); ledger_drop_all(); return; } } }
            if (ledger_is(left, (uint64_t)k, r, "release")) { ledger_drop_all(); return; }
            if (k % 32 == 31) for (int j = 0; j < LIVE_MAX; j++) if (alive[j] && !same(S[j], &M[j])) { char rep[80]; snprintf(rep, sizeof rep, "release %d", k); res_viol(r, "c13:long:release:other-seed-changed", rep, "after %d releases, live seed %d no longer equals the model", k + 1, j); ledger_drop_all(); return; }
            r->validated++; r->cls[0]++;
        }
    }
    res_sample(r, "0..%d seeds alive at once, released in four orders", LIVE_MAX);
}

/* part 2: N cycles of every constructor / operation with two bystander seeds */
static void many_calls(long N, struct res *r) {
    E.alloc_recycle = 1;
    polyseed_data *by[2]; rseed bm[2];
    if (make(900001, &by[0], &bm[0], r, "calls") || make(900002, &by[1], &bm[1], r, "calls")) { ledger_drop_all(); return; }
    polyseed_crypt(by[1], "bystander"); ref_crypt(&bm[1], E.mask);
    uint8_t img[32]; polyseed_str ph; rseed fixed; memset(&fixed, 0, sizeof fixed); for (int i = 0; i < 19; i++) fixed.secret[i] = (uint8_t)(7 * i + 3); fixed.secret[18] &= 0x3F; fixed.birthday = 321; fixed.features = 2;
    ref_storage(&fixed, img);
    for (long n = 0; n < N; n++) {
        if ((n & 1023) == 0 && past_deadline()) { r->timed_out = 1; break; }
        r->cases++;
        char rep[80]; snprintf(rep, sizeof rep, "calls %ld", n);
        polyseed_data *d = NULL; rseed m; int st;
        switch (n % 6) {
        case 0: if (make((uint64_t)n, &d, &m, r, "calls")) goto out; break;
        case 1: st = polyseed_load(img, &d); r->calls++; m = fixed; if (st != POLYSEED_OK) { res_viol(r, "c13:long:calls:load-status", rep, "load number %ld returned %d", n / 6, st); goto out; } break;
        case 2: { int li = (int)((n / 6) % R_NLANG); unsigned coin = (unsigned)(n % 2048); char big[2048]; ref_phrase(&fixed, li, coin, big, 0); snprintf(ph, PSTR, "%s", big);
                  st = polyseed_decode_explicit(ph, (polyseed_coin)coin, polyseed_get_lang(li), &d); r->calls++; m = fixed; if (st != POLYSEED_OK) { res_viol(r, "c13:long:calls:decode-status", rep, "decode_explicit number %ld (%s, coin %u) returned %d", n / 6, RL[li].code, coin, st); goto out; } } break;
        case 3: { int li = (int)((n / 6) % R_NLANG); unsigned coin = (unsigned)((n * 7) % 2048); char big[2048]; ref_phrase(&fixed, li, coin, big, 0); snprintf(ph, PSTR, "%s", big); const polyseed_lang *lo = NULL;
                  st = polyseed_decode(ph, (polyseed_coin)coin, &lo, &d); r->calls++; m = fixed; if (st != POLYSEED_OK && st != POLYSEED_ERR_MULT_LANG) { res_viol(r, "c13:long:calls:auto-status", rep, "decode number %ld (%s, coin %u) returned %d", n / 6, RL[li].code, coin, st); goto out; } if (st != POLYSEED_OK) d = NULL; } break;
        case 4: polyseed_crypt(by[0], (n & 64) ? "pa\xC3\x9Fwort" : "password"); ref_crypt(&bm[0], E.mask); r->calls++; break;
        case 5: { uint8_t key[32]; env_clear_log(); polyseed_keygen(by[1], (polyseed_coin)(n % 2048), 32, key); r->calls++; uint8_t salt[32]; ref_keygen_salt(&bm[1], (unsigned)(n % 2048), salt);
                  if (E.n_kdf != 1 || E.kdf.saltlen != 32 || memcmp(E.kdf.salt, salt, 32)) { res_viol(r, "c13:long:calls:keygen", rep, "key derivation number %ld: KDF calls %lu, salt %s", n / 6, E.n_kdf, E.kdf.saltlen == 32 && !memcmp(E.kdf.salt, salt, 32) ? "ok" : "differs from the model"); goto out; }
                  int en = polyseed_enable_features((unsigned)(n / 6) % 8); if (en != __builtin_popcount((unsigned)(n / 6) % 8)) { res_viol(r, "c13:long:calls:enable", rep, "enable_features number %ld returned %d", n / 6, en); goto out; } polyseed_enable_features(7); r->calls += 2; } break;
        }
        if (d) {
            /* a handed-out seed works like any seed whatever the block it sits in held before (blocks are recycled with their last contents here) */
            { uint8_t key[32], salt[32]; unsigned kc = (unsigned)(n % 2048); env_clear_log(); polyseed_keygen(d, (polyseed_coin)kc, 32, key); r->calls++; ref_keygen_salt(&m, kc, salt);
              if (E.n_kdf != 1 || E.kdf.saltlen != 32 || memcmp(E.kdf.salt, salt, 32)) { res_viol(r, "c13:long:calls:keygen-of-new-seed", rep, "key derivation on the seed handed out by call number %ld (kind %ld): KDF calls %lu, salt %s", n, n % 6, E.n_kdf, E.kdf.saltlen == 32 && !memcmp(E.kdf.salt, salt, 32) ? "ok" : "differs from the model"); polyseed_free(d); goto out; } }
            if (!same(d, &m)) { res_viol(r, "c13:long:calls:seed", rep, "the seed handed out by call number %ld (kind %ld) differs from the model", n, n % 6); polyseed_free(d); goto out; }
            if (ledger_is(3, (uint64_t)n, r, "calls")) goto out;
            polyseed_free(d); r->calls++;
        }
        if (ledger_is(2, (uint64_t)n, r, "calls")) goto out;
        if ((n & 255) == 255 || n == N - 1) for (int b = 0; b < 2; b++) if (!same(by[b], &bm[b])) { res_viol(r, "c13:long:calls:bystander", rep, "after %ld calls bystander seed %d differs from the model", n + 1, b); goto out; }
        r->validated++; r->cls[0]++;
    }
    E.alloc_recycle = 0;
    polyseed_free(by[0]); polyseed_free(by[1]);
    if (ledger_live()) res_viol(r, "c15:long:calls:final-ledger", "calls end", "%d blocks live after everything was released", ledger_live());
    res_sample(r, "%ld cycles of create / load / decode_explicit / decode / crypt / keygen+enable_features, two bystander seeds", N);
    return;
out:
    E.alloc_recycle = 0;
    ledger_drop_all();
}

int main(int argc, char **argv) {
    int a = common_args(argc, argv);
    ref_init(VERIF_ROOT); sec_mark_initial(); env_init(); inject(0); polyseed_enable_features(7);
    struct res *r = calloc(1, sizeof *r);
    long N = G_thorough ? 3000000 : 420000;       /* quick: 70 000 of each of the six operations (a 16-bit counter wraps); thorough: 500 000 of each */
    if (a < argc && (!strcmp(argv[a], "live") || !strcmp(argv[a], "release") || !strcmp(argv[a], "live-crypt"))) { many_live(r); for (int i = 0; i < r->nviol && i < 3; i++) printf("REPRODUCED %s: %s\n", r->v[i].key, r->v[i].msg); return r->nviol ? 1 : 0; }
    if (a < argc && !strcmp(argv[a], "calls")) { many_calls(a + 1 < argc && atol(argv[a + 1]) > 0 ? atol(argv[a + 1]) + 1 : N, r); for (int i = 0; i < r->nviol && i < 3; i++) printf("REPRODUCED %s: %s\n", r->v[i].key, r->v[i].msg); return r->nviol ? 1 : 0; }
    out_begin();
    many_live(r); out_part("0..300 seeds alive at once x 4 release orders", r, CLS, "every live count in the range, model and ledger compared at every step");
    memset(r, 0, sizeof *r); many_calls(N, r); out_part("every call count up to N in a fixed six-operation cycle", r, CLS, "counters of 8 and 16 bits wrap inside the range");
    out_kv_int("cycle_length", N); out_kv_int("max_live", LIVE_MAX);
    out_end();
    return 0;
}
