#!/usr/bin/env python3
"""One-off: extract the ten word lists from the *pinned* commit of /repo (git show,
never the working tree) into /verif/golden.  The golden files are the frozen
publication the checks compare the library against; they are committed and
sha256-pinned in golden/SHA256SUMS.  Re-running this on the pinned commit must
reproduce them byte for byte."""
import re, subprocess, json, hashlib, os, sys, unicodedata as U
PIN = "9e9caad"
ROOT = os.path.dirname(os.path.dirname(os.path.abspath(__file__)))
ORDER = ['en','jp','ko','es','fr','it','cs','pt','zh_s','zh_t']
def unesc(s):
    if '\\' in s:
        return s.encode('utf-8').decode('unicode_escape').encode('latin1','surrogatepass').decode('utf-8') if '\\u' not in s else re.sub(r'\\u([0-9a-fA-F]{4})', lambda m: chr(int(m.group(1),16)), s)
    return s
def parse(code):
    src = subprocess.run(['git','-C','/repo','show','%s:src/lang_%s.c'%(PIN,code)],capture_output=True,check=True).stdout.decode('utf-8-sig')
    hdr = {'code':code}
    for k in ('name','name_en','separator'):
        m = re.search(r'\.%s\s*=\s*(?:u8)?"((?:[^"\\]|\\.)*)"' % k, src)
        hdr[k] = unesc(m.group(1))
    for k in ('is_sorted','has_prefix','has_accents','compose'):
        hdr[k] = re.search(r'\.%s\s*=\s*(true|false)' % k, src).group(1) == 'true'
    body = src[src.index('.words'):]
    words = [unesc(w) for w in re.findall(r'(?:u8)?"((?:[^"\\]|\\.)*)"', body)]
    assert len(words) == 2048, (code, len(words))
    return hdr, words
langs = []
sums = []
for code in ORDER:
    h, w = parse(code)
    data = ('\n'.join(w)+'\n').encode('utf-8')
    open(os.path.join(ROOT,'golden','words_%s.txt'%code),'wb').write(data)
    h['sha256'] = hashlib.sha256(data).hexdigest()
    sums.append('%s  words_%s.txt' % (h['sha256'], code))
    langs.append(h)
    print(code, h['name_en'], len(set(w)), 'nfkd-stable', all(U.normalize('NFKD',x)==x for x in w), h['sha256'][:16])
js = json.dumps({'pinned_commit':PIN,'order':ORDER,'langs':langs},ensure_ascii=False,indent=1).encode()
open(os.path.join(ROOT,'golden','langs.json'),'wb').write(js+b'\n')
# flat table for the C loader: code|name_en|sep-hex|sorted|prefix|accents|compose|name-hex
with open(os.path.join(ROOT,'golden','langs.tsv'),'w') as f:
    for h in langs:
        f.write('\t'.join([h['code'],h['name_en'],h['separator'].encode().hex(),str(int(h['is_sorted'])),str(int(h['has_prefix'])),str(int(h['has_accents'])),str(int(h['compose'])),h['name'].encode().hex()])+'\n')
for fn in ('langs.json','langs.tsv'):
    sums.append('%s  %s' % (hashlib.sha256(open(os.path.join(ROOT,'golden',fn),'rb').read()).hexdigest(), fn))
open(os.path.join(ROOT,'golden','SHA256SUMS'),'w').write('\n'.join(sums)+'\n')
