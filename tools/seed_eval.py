#!/usr/bin/env python3
"""Evaluate the checks against a seeded (property-breaking) change without touching /repo:
   seed_eval.py <seed-dir> [check ids...]
The patch is applied to a scratch worktree of /repo's HEAD (/tmp/wt_seedeval, created on demand and
reset every time), the repository's own suite is run there with the guard off, then the named checks
(default: the property in meta.json, or all) are run with VERIF_REPO pointing at the worktree.
Prints one line per check: DETECTED / missed, and writes nothing under /verif/evidence that is kept
(the evidence files are restored afterwards)."""
import json, os, subprocess, sys, shutil, tempfile
ROOT = os.path.dirname(os.path.dirname(os.path.abspath(__file__)))
WT = '/tmp/wt_seedeval'

def sh(cmd, **kw):
    return subprocess.run(cmd, shell=True, capture_output=True, text=True, **kw)

def main():
    seed = os.path.abspath(sys.argv[1]); ids = sys.argv[2:]
    meta = {}
    if os.path.exists(os.path.join(seed, 'meta.json')):
        meta = json.load(open(os.path.join(seed, 'meta.json')))
    if not ids:
        ids = meta.get('checks_expected') or [meta.get('property')]
    if not os.path.isdir(WT):
        r = sh('git -C /repo worktree add --detach %s HEAD' % WT)
        if r.returncode: print(r.stderr); return 2
    sh('git -C %s checkout -q --detach %s && git -C %s checkout -- . && git -C %s clean -fdq' % (WT, sh('git -C /repo rev-parse HEAD').stdout.strip(), WT, WT))
    r = sh('git -C %s apply %s' % (WT, os.path.join(seed, 'patch.diff')))
    if r.returncode: print('patch does not apply:', r.stderr); return 2
    env = dict(os.environ, VERIF_REPO=WT)
    b = subprocess.run([os.path.join(ROOT, 'bin', 'baseline')], capture_output=True, text=True, env=env)
    suite_ok = b.returncode == 0
    print('suite with the change: %s' % ('passes' if suite_ok else 'FAILS'))
    # keep the committed evidence files intact
    keep = tempfile.mkdtemp(prefix='evkeep')
    for f in os.listdir(os.path.join(ROOT, 'evidence')):
        if f.endswith('.json'): shutil.copy(os.path.join(ROOT, 'evidence', f), keep)
    out = {}
    try:
        for cid in ids:
            p = subprocess.run([os.path.join(ROOT, 'bin', 'check'), cid, '--tier', 'quick'], capture_output=True, text=True, env=env, cwd=ROOT)
            viol = [l for l in p.stdout.splitlines() if l.startswith('VIOLATION')]
            first = ''
            lines = p.stdout.splitlines()
            for i, l in enumerate(lines):
                if l.startswith('VIOLATION') and i + 1 < len(lines): first = lines[i + 1].strip()[:300]; break
            out[cid] = {'exit': p.returncode, 'violations': len(viol), 'first': first}
            print('%s: %s (exit %d, %d VIOLATION lines) %s' % (cid, 'DETECTED' if p.returncode == 1 and viol else 'missed', p.returncode, len(viol), first))
    finally:
        for f in os.listdir(keep): shutil.copy(os.path.join(keep, f), os.path.join(ROOT, 'evidence'))
        shutil.rmtree(keep)
        sh('git -C %s checkout -- . && git -C %s clean -fdq' % (WT, WT))
    print(json.dumps({'suite_passes': suite_ok, 'checks': out}))
    return 0
if __name__ == '__main__':
    sys.exit(main())
