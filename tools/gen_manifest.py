#!/usr/bin/env python3
"""Regenerates MANIFEST.json from lib/checks.py (META) so the manifest always lists
exactly the registered checks; unregistered properties go to not_applicable."""
import json, os, sys
ROOT = os.path.dirname(os.path.dirname(os.path.abspath(__file__)))
sys.path.insert(0, os.path.join(ROOT, 'lib'))
import checks
props = [json.loads(l)['id'] for l in open(os.path.join(ROOT, 'properties.jsonl'))]
man = {
 'version': 1,
 'setup_cmd': 'bin/check --setup',
 'hooks': {'guard': 'POLYSEED_VERIF',
           'enable': 'no source hooks exist: all instrumentation is done with compiler flags, ld -r, objcopy section/symbol renaming (lib/build.py); -DPOLYSEED_VERIF is passed to every library build so a future guarded hook would be honoured',
           'baseline_off_cmd': 'bin/baseline', 'source_commits': [], 'add_only': True},
 'engines': checks.ENGINES,
 'checks': [], 'not_applicable': [],
 'notes': 'Family: model checking of the implementation itself (explicit-state search over API histories, exhaustive bounded enumeration of finite input factors, stateless schedule exploration) against an independent reference model; see DESIGN.md. Genuine defects repaired by fix: commits are listed in KNOWN_FINDINGS.txt.',
}
for pid in props:
    if pid in checks.CHECKS and pid in checks.META:
        m = checks.META[pid]
        c = {'property_id': pid, 'quick_cmd': 'bin/check %s --tier quick' % pid, 'thorough_cmd': 'bin/check %s --tier thorough' % pid,
             'evidence_file': 'evidence/%s.json' % pid, 'replay_cmd_template': 'bin/check --replay {path}', 'engine': m['engine'],
             'level_claimed': {'category': m.get('category', 'model_checking'), 'text': m['text'], 'design_ref': m['design_ref']},
             'level_note': m['note'], 'technique': m['technique']}
        man['checks'].append(c)
    else:
        man['not_applicable'].append({'property_id': pid, 'reason': checks.NA.get(pid, 'engine for this property not completed yet (see DESIGN.md section 9, implementation order)')})
json.dump(man, open(os.path.join(ROOT, 'MANIFEST.json'), 'w'), indent=1)
print('checks:', [c['property_id'] for c in man['checks']]); print('not_applicable:', [c['property_id'] for c in man['not_applicable']])
