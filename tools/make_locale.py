#!/usr/bin/env python3
"""make_locale.py <outdir>
Builds, offline, a synthetic single-byte locale "verif_l2" (ISO-8859-2 code set; character classes and
case mappings taken from Python's unicodedata) with localedef.  The process locale is part of the
environment a C library function may consult (tolower, isspace, strcoll ...); the checks run some
sweeps under it (LOCPATH=<outdir>, setlocale(LC_ALL, "verif_l2")) so that a change which makes the
library locale-dependent shows.  The unchanged library calls no locale-dependent function."""
import os, subprocess, sys, unicodedata

def main(out):
    os.makedirs(out, exist_ok=True)
    if os.path.exists(os.path.join(out, 'verif_l2', 'LC_CTYPE')):
        return 0
    names = {}
    lines = ['<code_set_name> ISO-8859-2', '<comment_char> %', '<escape_char> /', '<mb_cur_min> 1', '<mb_cur_max> 1', 'CHARMAP']
    for b in range(256):
        try:
            u = bytes([b]).decode('iso8859_2')
        except Exception:
            continue
        names[b] = ord(u)
        lines.append('<U%04X> /x%02x' % (ord(u), b))
    lines.append('END CHARMAP')
    open(os.path.join(out, 'L2.charmap'), 'w').write('\n'.join(lines) + '\n')
    cps = sorted(set(names.values()))
    U = lambda c: '<U%04X>' % c
    lst = lambda l: ';'.join(U(c) for c in l)
    pairs = lambda l: ';'.join('(%s,%s)' % (U(a), U(b)) for a, b in l)
    upper = [c for c in cps if chr(c).isupper()]
    lower = [c for c in cps if chr(c).islower()]
    alpha = [c for c in cps if chr(c).isalpha()]
    digit = [c for c in cps if 0x30 <= c <= 0x39]
    space = [c for c in (0x20, 0x09, 0x0a, 0x0b, 0x0c, 0x0d, 0x85, 0xa0) if c in cps]      # NEL and the no-break space are white space in many single-byte locales (BSD, macOS, Windows Latin-1)
    cntrl = [c for c in cps if (c < 0x20 or 0x7f <= c < 0xa0)]
    punct = [c for c in cps if c not in alpha and c not in digit and c not in cntrl and c not in space and c != 0x20]
    xdigit = [c for c in cps if chr(c) in '0123456789abcdefABCDEF']
    tl = [(c, ord(chr(c).lower())) for c in upper if len(chr(c).lower()) == 1 and ord(chr(c).lower()) in cps]
    tu = [(c, ord(chr(c).upper())) for c in lower if len(chr(c).upper()) == 1 and ord(chr(c).upper()) in cps]
    cats = ['LC_IDENTIFICATION', 'LC_CTYPE', 'LC_COLLATE', 'LC_TIME', 'LC_NUMERIC', 'LC_MONETARY', 'LC_MESSAGES', 'LC_PAPER', 'LC_NAME', 'LC_ADDRESS', 'LC_TELEPHONE', 'LC_MEASUREMENT']
    src = ['comment_char %', 'escape_char /', 'LC_IDENTIFICATION', 'title "synthetic Latin-2 locale for verification"']
    for k in ('source', 'address', 'contact', 'email', 'tel', 'fax', 'language', 'territory'):
        src.append('%s ""' % k)
    src += ['revision "1.0"', 'date "2026-01-01"'] + ['category "i18n:2012";%s' % c for c in cats] + ['END LC_IDENTIFICATION']
    src += ['LC_CTYPE', 'upper ' + lst(upper), 'lower ' + lst(lower), 'alpha ' + lst(alpha), 'digit ' + lst(digit), 'space ' + lst(space),
            'cntrl ' + lst(cntrl), 'punct ' + lst(punct), 'xdigit ' + lst(xdigit), 'blank ' + lst([0x20, 0x09]),
            'toupper ' + pairs(tu), 'tolower ' + pairs(tl), 'END LC_CTYPE']
    src += ['LC_COLLATE', 'order_start forward', 'UNDEFINED', 'order_end', 'END LC_COLLATE']
    src += ['LC_MONETARY', 'int_curr_symbol "XXX "', 'currency_symbol "x"', 'mon_decimal_point "."', 'mon_thousands_sep ""', 'mon_grouping -1',
            'positive_sign ""', 'negative_sign "-"', 'int_frac_digits 2', 'frac_digits 2', 'p_cs_precedes 1', 'p_sep_by_space 0',
            'n_cs_precedes 1', 'n_sep_by_space 0', 'p_sign_posn 1', 'n_sign_posn 1', 'END LC_MONETARY']
    src += ['LC_NUMERIC', 'decimal_point "."', 'thousands_sep ""', 'grouping -1', 'END LC_NUMERIC']
    seven = ';'.join('"%s"' % c for c in 'abcdefg'); twelve = ';'.join('"%s"' % c for c in 'abcdefghijkl')
    src += ['LC_TIME', 'abday ' + seven, 'day ' + seven, 'abmon ' + twelve, 'mon ' + twelve, 'd_t_fmt "%a %b %e %H:%M:%S %Y"', 'd_fmt "%m/%d/%y"',
            't_fmt "%H:%M:%S"', 'am_pm "";""', 't_fmt_ampm ""', 'END LC_TIME']
    src += ['LC_MESSAGES', 'yesexpr "^[yY]"', 'noexpr "^[nN]"', 'END LC_MESSAGES', 'LC_PAPER', 'height 297', 'width 210', 'END LC_PAPER',
            'LC_NAME', 'name_fmt "%p"', 'END LC_NAME', 'LC_ADDRESS', 'postal_fmt "%a"', 'END LC_ADDRESS', 'LC_TELEPHONE', 'tel_int_fmt "+%c"',
            'END LC_TELEPHONE', 'LC_MEASUREMENT', 'measurement 1', 'END LC_MEASUREMENT']
    open(os.path.join(out, 'l2.locale'), 'w').write('\n'.join(src) + '\n')
    r = subprocess.run(['localedef', '-c', '-f', os.path.join(out, 'L2.charmap'), '-i', os.path.join(out, 'l2.locale'), os.path.join(out, 'verif_l2')],
                       capture_output=True, text=True)
    ok = os.path.exists(os.path.join(out, 'verif_l2', 'LC_CTYPE'))
    if not ok:
        sys.stderr.write('localedef failed: %s %s\n' % (r.stdout[-500:], r.stderr[-500:]))
    return 0 if ok else 1

if __name__ == '__main__':
    sys.exit(main(sys.argv[1] if len(sys.argv) > 1 else os.path.join(os.path.dirname(os.path.dirname(os.path.abspath(__file__))), 'build', 'locale')))
