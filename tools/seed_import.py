#!/usr/bin/env python3
"""seed_import.py <property id> <candidate letter> [extra check ids...]
Imports a seeded change written by an independent sub-agent (/tmp/seed_<ID>/seed/<letter>) into
/verif/seeded/<ID>-<letter>/ after confirming, in a scratch worktree and never in /repo:
  - the patch applies to /repo's HEAD and the library builds;
  - the repository's own test suite passes with the change (guard off);
  - the agent's demonstration fails with the change and passes without it;
then runs the named checks (default: the property's own) against the changed tree through
VERIF_REPO and records everything in meta.json."""
import json, os, shutil, subprocess, sys, tempfile, time
ROOT = os.path.dirname(os.path.dirname(os.path.abspath(__file__)))
WT = '/tmp/wt_seedeval'
def sh(cmd, **kw): return subprocess.run(cmd, shell=True, capture_output=True, text=True, **kw)
def build_and_demo(demo_c, tag):
    """suite: stock flags (what the repository's baseline runs); demo: SEED_CFLAGS if given (e.g. -funsigned-char)"""
    b = WT + '/_b'
    cf = os.environ.get('SEED_CFLAGS', '')
    shutil.rmtree(b, ignore_errors=True)
    r = sh('cmake -G Ninja -S %s -B %s -DCMAKE_BUILD_TYPE=RelWithDebInfo && cmake --build %s' % (WT, b, b))
    if r.returncode: return {'build': 'FAILED', 'log': (r.stdout + r.stderr)[-800:]}
    t = sh('%s/polyseed-tests | tail -1' % b)
    suite = 'All tests were successful' in t.stdout
    bt = os.environ.get('SEED_BUILD_TYPE', 'RelWithDebInfo')
    if cf or bt != 'RelWithDebInfo':
        shutil.rmtree(b, ignore_errors=True)
        r = sh('cmake -G Ninja -S %s -B %s -DCMAKE_BUILD_TYPE=%s %s && cmake --build %s' % (WT, b, bt, ('-DCMAKE_C_FLAGS=' + cf) if cf else '', b))
        if r.returncode: return {'build': 'FAILED', 'log': (r.stdout + r.stderr)[-800:]}
    exe = '/tmp/seed_demo_%s' % tag
    c = sh('gcc -O1 ' + cf + (' -I%s/include -DPOLYSEED_STATIC %s %s/libpolyseed.a -lutf8proc -lpthread -lm ' % (WT, demo_c, b)) + os.environ.get('SEED_LDFLAGS', '') + ' -o ' + exe)
    if c.returncode: return {'build': 'ok', 'suite_passes': suite, 'demo': 'COMPILE FAILED', 'log': c.stderr[-800:]}
    try:
        d = subprocess.run([exe], capture_output=True, text=True, errors='replace', timeout=300)
        rc, out = d.returncode, (d.stdout + d.stderr)[-600:]
    except subprocess.TimeoutExpired:
        rc, out = -9, 'timeout'
    os.unlink(exe); shutil.rmtree(b, ignore_errors=True)
    return {'build': 'ok', 'suite_passes': suite, 'demo_exit': rc, 'demo_output': out.strip()}
def main():
    args = sys.argv[1:]
    as_letter = None; src_root = None
    if '--as' in args: i = args.index('--as'); as_letter = args[i + 1]; del args[i:i + 2]
    if '--from' in args: i = args.index('--from'); src_root = args[i + 1]; del args[i:i + 2]
    pid, letter = args[0], args[1]; extra = args[2:]
    src = '%s/seed/%s' % (src_root or '/tmp/seed_%s' % pid, letter)
    letter = as_letter or letter
    dst = os.path.join(ROOT, 'seeded', '%s-%s' % (pid, letter))
    os.makedirs(dst, exist_ok=True)
    for f in ('patch.diff', 'demo.c', 'README.txt'):
        if os.path.exists(os.path.join(src, f)): shutil.copy(os.path.join(src, f), dst)
    if os.path.isdir(src):
        for f in os.listdir(src):                     # helper headers a demonstration includes
            if f.endswith('.h'): shutil.copy(os.path.join(src, f), dst)
    head = sh('git -C /repo rev-parse HEAD').stdout.strip()
    if not os.path.isdir(WT):
        sh('git -C /repo worktree add --detach %s HEAD' % WT)
    sh('git -C %s checkout -q --detach %s; git -C %s checkout -- .; git -C %s clean -fdq' % (WT, head, WT, WT))
    clean = build_and_demo(os.path.join(dst, 'demo.c'), pid + letter + 'clean')
    ap = sh('git -C %s apply %s' % (WT, os.path.join(dst, 'patch.diff')))
    if ap.returncode:
        print('patch does not apply: ' + ap.stderr); return 2
    changed = build_and_demo(os.path.join(dst, 'demo.c'), pid + letter + 'chg')
    ok = clean.get('suite_passes') and clean.get('demo_exit') == 0 and changed.get('suite_passes') and changed.get('demo_exit') not in (0, None)
    print('unchanged:', clean); print('changed:  ', changed); print('VALID SEED' if ok else 'INVALID SEED')
    # run checks
    env = dict(os.environ, VERIF_REPO=WT)
    keep = tempfile.mkdtemp(prefix='evkeep')
    for f in os.listdir(os.path.join(ROOT, 'evidence')):
        if f.endswith('.json'): shutil.copy(os.path.join(ROOT, 'evidence', f), keep)
    res = {}
    try:
        for cid in [pid] + extra:
            t0 = time.time()
            p = subprocess.run([os.path.join(ROOT, 'bin', 'check'), cid, '--tier', 'quick'], capture_output=True, text=True, env=env, cwd=ROOT)
            lines = p.stdout.splitlines(); first = ''
            for i, l in enumerate(lines):
                if l.startswith('VIOLATION') and i + 1 < len(lines): first = lines[i + 1].strip()[:400]; break
            nv = sum(1 for l in lines if l.startswith('VIOLATION'))
            res[cid] = {'detected': p.returncode == 1 and nv > 0, 'exit': p.returncode, 'violation_lines': nv, 'first_violation': first, 'wall_s': round(time.time() - t0, 1)}
            print('%s: %s  %s' % (cid, 'DETECTED' if res[cid]['detected'] else 'MISSED (exit %d)' % p.returncode, first[:200]))
    finally:
        for f in os.listdir(keep): shutil.copy(os.path.join(keep, f), os.path.join(ROOT, 'evidence'))
        shutil.rmtree(keep)
        sh('git -C %s checkout -- .; git -C %s clean -fdq' % (WT, WT))
    meta = {'property': pid, 'candidate': letter, 'origin': 'independent sub-agent given only the property text and a scratch worktree (%s)' % (src_root or '/tmp/seed_%s' % pid),
            'repo_head': head, 'valid': bool(ok), 'confirmed_by_me': {'unchanged_tree': clean, 'changed_tree': changed,
            'library_cflags': os.environ.get('SEED_CFLAGS', ''), 'demo_library_build_type': os.environ.get('SEED_BUILD_TYPE', 'RelWithDebInfo'), 'how': 'scratch worktree /tmp/wt_seedeval of /repo HEAD: cmake RelWithDebInfo build, polyseed-tests, demo.c linked against libpolyseed.a; with and without patch.diff'},
            'checks_run': res, 'needs_to_manifest': 'see README.txt'}
    old = os.path.join(dst, 'meta.json')
    if os.path.exists(old):
        try:
            o = json.load(open(old)); meta['needs_to_manifest'] = o.get('needs_to_manifest', meta['needs_to_manifest']);
            for k, v in o.get('checks_run', {}).items(): meta['checks_run'].setdefault(k, v)
        except Exception: pass
    json.dump(meta, open(old, 'w'), indent=1)
    return 0
if __name__ == '__main__':
    sys.exit(main())
