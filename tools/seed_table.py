#!/usr/bin/env python3
"""Prints the markdown table of DESIGN.md section 11.5 from seeded/*/meta.json."""
import json, glob, os, re
ROOT = os.path.dirname(os.path.dirname(os.path.abspath(__file__)))
for d in sorted(glob.glob(os.path.join(ROOT, 'seeded', 'C*'))):
    m = json.load(open(d + '/meta.json'))
    files = sorted(set(re.findall(r'^\+\+\+ b/(\S+)', open(d + '/patch.diff', errors='replace').read(), re.M)))
    det = [k for k, v in m['checks_run'].items() if v['detected']]
    miss = [k for k, v in m['checks_run'].items() if not v['detected']]
    first = m['checks_run'].get(m['property'], {}).get('first_violation', '')[:110].replace('|', '/')
    print('| %s | %s | %s | %s | %s |' % (os.path.basename(d), ', '.join(files), ', '.join(det), ', '.join(miss) or '-', first))
