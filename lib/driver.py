"""Driver shared by all checks: runs exploration programs, filters violations through
KNOWN_FINDINGS.txt, replays before reporting, writes evidence/<ID>.json."""
import json, os, subprocess, sys, time, shlex, re
import build

ROOT = build.ROOT
# evidence is only ever written for /repo itself; runs against a scratch tree (VERIF_REPO, used to evaluate seeded
# changes) write to a scratch directory so that committed evidence always describes /repo
EVID = os.path.join(ROOT, 'evidence') if os.path.realpath(build.REPO) == '/repo' else os.path.join(ROOT, 'build', 'evidence-scratch')
REPLAY = os.path.join(EVID, 'replay')
KNOWN = os.path.join(ROOT, 'KNOWN_FINDINGS.txt')
NPROC = os.cpu_count() or 4

class Run:
    """one invocation of a harness program"""
    def __init__(self, prog, mode, args, srcs=None, label=None, extra_cflags='', extra_ld='', core=True, env=None, replay_mode=None):
        self.prog, self.mode, self.args = prog, mode, list(args)
        self.srcs = srcs or [prog + '.c']
        self.label = label or '%s[%s] %s' % (prog, mode, ' '.join(args))
        self.extra_cflags, self.extra_ld, self.core, self.env = extra_cflags, extra_ld, core, env
        self.replay_mode = replay_mode or mode
    def binary(self, mode=None):
        return build.build_prog(self.prog, mode or self.mode, self.srcs, self.extra_cflags, self.extra_ld, self.core)

def load_known():
    """returns {property: {key: text}} for 'finding:' lines; 'fixed:' lines suppress nothing"""
    out = {}
    if not os.path.exists(KNOWN):
        return out
    for line in open(KNOWN, encoding='utf-8'):
        line = line.strip()
        m = re.match(r'finding:\s+property=(\S+)\s+key=(\S+)\s*(.*)', line)
        if m:
            out.setdefault(m.group(1), {})[m.group(2)] = m.group(3)
    return out

def san_env():
    e = dict(os.environ)
    e['ASAN_OPTIONS'] = 'detect_leaks=0:abort_on_error=1:allocator_may_return_null=1:handle_segv=1'
    e['UBSAN_OPTIONS'] = 'print_stacktrace=1:halt_on_error=1'
    e['TSAN_OPTIONS'] = 'halt_on_error=0:report_signal_unsafe=0:exitcode=66'
    return e

def locale_env(run):
    """runs that ask for a process locale get the synthetic single-byte locale built offline by tools/make_locale.py"""
    if '--locale' not in run.args:
        return {}
    d = os.path.join(build.BUILD, 'locale-v2')
    sys.path.insert(0, os.path.join(build.ROOT, 'tools'))
    import make_locale
    make_locale.main(d)
    return {'LOCPATH': d}

def run_program(run, deadline_s, seed, tier, workers=None):
    exe = run.binary()
    cmd = [exe, '--workers', str(workers or NPROC), '--deadline', '%d' % max(5, int(deadline_s)), '--seed', str(seed), '--tier', tier] + run.args
    env = san_env()
    if run.env: env.update(run.env)
    env.update(locale_env(run))
    t0 = time.time()
    try:
        p = subprocess.run(cmd, capture_output=True, env=env, timeout=deadline_s + 120)
        out, err, rc = p.stdout.decode('utf-8', 'replace'), p.stderr.decode('utf-8', 'replace'), p.returncode
    except subprocess.TimeoutExpired as e:
        out, err, rc = (e.stdout or b'').decode('utf-8', 'replace'), (e.stderr or b'').decode('utf-8', 'replace') + '\n[driver] hard timeout', -9
    wall = time.time() - t0
    res = None
    try:
        res = json.loads(out)
    except Exception:
        res = None
    if res is None or rc != 0:
        # the program itself died (sanitizer abort in the parent, assertion, ...) - that is a finding to look at, never silence
        res = res or {'parts': []}
        res['parts'].append({'name': 'program-exit', 'cases': 0, 'calls': 0, 'validated': 0, 'digest': '0', 'timed_out': False,
                             'violations_total': 1, 'classes': {}, 'note': '', 'samples': [],
                             'violations': [{'key': 'program-exit:%s:%d' % (run.prog, rc), 'replay': '',
                                             'msg': 'program %s exited with %d; stderr tail: %s ; stdout tail: %s' % (run.label, rc, err[-1500:], out[-300:])}]})
    res['_stderr'] = err[-4000:]
    res['_wall'] = wall
    res['_label'] = run.label
    return res

def replay_once(run, replay_args):
    exe = run.binary(run.replay_mode)
    pre = []
    if '--locale' in run.args:
        pre = ['--locale', run.args[run.args.index('--locale') + 1]]
    cmd = [exe] + pre + shlex.split(replay_args)
    env = san_env(); env.update(locale_env(run))
    p = subprocess.run(cmd, capture_output=True, env=env, timeout=600)
    return p.returncode, (p.stdout.decode('utf-8', 'replace') + p.stderr.decode('utf-8', 'replace'))[-3000:]

def check(pid, tier, seed, runs, level='model_checking', rule=None, assumptions=None, keyfilter=None,
          budget_s=None, extra_cov=None, post=None, parallel=False):
    """runs: list of Run.  keyfilter(key)->bool selects the violations that belong to this property.
    post(results)-> list of extra violation dicts (cross-run oracles such as configuration differentials)."""
    t0 = time.time()
    budget = budget_s or (600 if tier == 'quick' else 1500)
    known = load_known().get(pid, {})
    results = []
    if parallel:
        from concurrent.futures import ThreadPoolExecutor
        for r in runs:
            r.binary()                      # build sequentially (shared cache), run concurrently
        with ThreadPoolExecutor(len(runs)) as ex:
            futs = [ex.submit(run_program, r, budget, seed, tier, max(1, NPROC // len(runs))) for r in runs]
            results = [(r, f.result()) for r, f in zip(runs, futs)]
    else:
        for r in runs:
            left = budget - (time.time() - t0)
            results.append((r, run_program(r, max(left, 5), seed, tier)))
    parts, viol, samples = [], [], []
    states = trans = valid = 0
    exhaustive = True
    for r, res in results:
        if res.get('fatal'):
            viol.append((r, {'key': 'fatal:' + r.prog, 'replay': '', 'msg': res['fatal']}))
        for p in res['parts']:
            states += p['cases']; trans += p['calls']; valid += p['validated']
            if p['timed_out']:
                exhaustive = False
            parts.append({'run': res['_label'], 'part': p['name'], 'cases': p['cases'], 'api_calls': p['calls'],
                          'validated': p['validated'], 'outcomes': {k: v for k, v in p['classes'].items()},
                          'complete': not p['timed_out'], 'note': p.get('note', ''), 'digest': p.get('digest')})
            for s in p.get('samples', [])[:2]:
                samples.append('%s :: %s' % (p['name'], s))
            for v in p['violations']:
                if keyfilter is None or keyfilter(v['key']):
                    viol.append((r, v))
    if post:
        for v in post(results):
            viol.append((None, v))
    # classify
    new, knownhits = [], []
    for r, v in viol:
        if v['key'] in known:
            knownhits.append((v['key'], known[v['key']]))
        else:
            new.append((r, v))
    os.makedirs(REPLAY, exist_ok=True)
    lines = []
    for k, text in sorted(set(knownhits)):
        lines.append('KNOWN-FINDING: property=%s %s %s' % (pid, k, text))
    nrep = 0
    for r, v in new[:20]:
        nrep += 1
        path = os.path.join(REPLAY, '%s-%d.json' % (pid, nrep))
        art = {'property': pid, 'key': v['key'], 'message': v['msg'], 'program': r.prog if r else None,
               'srcs': r.srcs if r else None, 'build_mode': r.replay_mode if r else None, 'argv': v['replay'],
               'extra_cflags': r.extra_cflags if r else '', 'extra_ld': r.extra_ld if r else '', 'core': r.core if r else True}
        # replay before report: the same case must fail twice in a row without the explorer
        if r and v['replay']:
            try:
                rc1, o1 = replay_once(r, v['replay']); rc2, o2 = replay_once(r, v['replay'])
                art['replayed'] = [rc1, rc2]; art['replay_output'] = o1[-1500:]
                art['deterministic'] = (rc1 == rc2 and rc1 != 0)
            except Exception as e:
                art['replayed'] = str(e)
        json.dump(art, open(path, 'w'), indent=1, ensure_ascii=False)
        lines.append('VIOLATION property=%s replay=%s' % (pid, path))
        lines.append('  %s: %s' % (v['key'], v['msg'][:600]))
    wall = time.time() - t0
    outcome_classes = sum(1 for p in parts for k, n in p['outcomes'].items() if n)
    cov = {
        'states': states, 'transitions': trans, 'traces_validated_against_impl': valid,
        'evaluations': trans, 'distinct_nontrivial': valid,
        'rule': rule or ('cases are the points of the enumerated factor spaces (mixed-radix index decoding, injective per part); '
                         'evaluations = real API calls made; distinct_nontrivial = cases that reached the oracle comparison and were compared with the reference model'),
        'exhaustive': exhaustive and not new,
        'outcome_classes_hit': outcome_classes,
        'parts': parts, 'samples': samples[:12] or ['(no sample recorded)'],
        'known_findings_reported': len(set(knownhits)),
        'program_wall_s': {res['_label']: round(res['_wall'], 2) for _, res in results},
    }
    if extra_cov:
        cov.update(extra_cov(results) if callable(extra_cov) else extra_cov)
    ev = {'property_id': pid, 'tier': tier, 'seed': seed, 'level': level, 'coverage': cov,
          'assumptions': assumptions or [], 'wall_s': round(wall, 2), 'violations': len(new)}
    os.makedirs(EVID, exist_ok=True)
    tmp = os.path.join(EVID, '%s.json.tmp' % pid)
    json.dump(ev, open(tmp, 'w'), indent=1, ensure_ascii=False)
    os.replace(tmp, os.path.join(EVID, '%s.json' % pid))
    for l in lines:
        print(l)
    print('%s tier=%s states=%d transitions=%d validated=%d exhaustive=%s violations=%d known=%d wall=%.1fs' % (
        pid, tier, states, trans, valid, cov['exhaustive'], len(new), len(set(knownhits)), wall))
    if new:
        for _, res in results:
            if res['_stderr'].strip():
                sys.stderr.write('--- stderr of %s ---\n%s\n' % (res['_label'], res['_stderr'][-2500:]))
    return 1 if new else 0

def replay_file(path):
    art = json.load(open(path))
    if not art.get('program') or not art.get('argv'):
        print('artefact has no replayable case: %s' % art.get('message')); return 2
    r = Run(art['program'], art['build_mode'], [], srcs=art['srcs'], extra_cflags=art.get('extra_cflags', ''), extra_ld=art.get('extra_ld', ''), core=art.get('core', True))
    rc1, o1 = replay_once(r, art['argv']); rc2, o2 = replay_once(r, art['argv'])
    print(o1)
    print('replay exit codes: %d %d (%s)' % (rc1, rc2, 'deterministic' if rc1 == rc2 else 'NOT deterministic'))
    if rc1 != 0:
        print('VIOLATION property=%s replay=%s' % (art['property'], path))
    return 1 if rc1 != 0 else 0
