"""Registry: property id -> function(tier, seed) -> exit code."""
import driver, build
from driver import Run, check

ASSUME_COMMON = [
    'injected NFC/NFKD is libutf8proc; it truncates to sizeof(polyseed_str)-1 bytes and NUL-terminates',
    'reference model harness/ref.c (written from README.md + polyseed.h) and golden word lists /verif/golden (sha256-pinned, English digest = published BIP-39 digest)',
    'compilers, sanitizers, binutils (ld -r, objcopy section renaming)',
]
def pref(*pp):
    return lambda k: any(k.startswith(p) for p in pp) or k.startswith('crash:') or k.startswith('program-exit') or k.startswith('fatal:')

def c01(tier, seed):
    runs = [Run('e2_phrase', 'asan', ['c01'])]
    if tier == 'thorough':
        runs.append(Run('e2_phrase', 'dbg', ['c01']))
    return check('C01', tier, seed, runs, keyfilter=pref('c01:'), assumptions=ASSUME_COMMON + [
        'factoring: every 11-bit word value in every position in each background seed, all 1- and 2-bit seeds, all coins, all birthdays x supported features x masks; an effect that needs three specific bits in different words outside every background escapes'])

def c03(tier, seed):
    runs = [Run('e2_phrase', 'asan', ['c03'])]
    return check('C03', tier, seed, runs, keyfilter=pref('c03:'), assumptions=ASSUME_COMMON + [
        'bit-linearity argument: the packing is determined by the 165 single-bit seeds and their pairs, which are enumerated completely'])

def c02(tier, seed):
    runs = [Run('e2_gf', 'plain', []), Run('e2_gf', 'asan', ['--stride', '61' if tier == 'quick' else '7'])]
    return check('C02', tier, seed, runs, keyfilter=pref('c02:'), assumptions=ASSUME_COMMON + [
        'linearity argument: doubling checked on all 2048 elements at every Horner depth (part a) and additivity on all pairs of basis polynomials (part b) reduce detection to (position, difference), enumerated completely (part c)'])

def c04(tier, seed):
    if tier == 'quick':
        runs = [Run('e2_kdf', 'plain', []), Run('e2_kdf', 'asan', ['--slice', '7'])]
    else:
        runs = [Run('e2_kdf', 'plain', []), Run('e2_kdf', 'asan', [])]
    return check('C04', tier, seed, runs, keyfilter=pref('c04:'), assumptions=ASSUME_COMMON + [
        'key sizes {0,1,31,32,33,64,4000}; the key buffer ends at a page boundary followed by an inaccessible page and the page is made inaccessible when the KDF stub returns'])

def c05(tier, seed):
    runs = [Run('e2_coin', 'asan' if tier == 'quick' else 'plain', [])]
    if tier == 'thorough':
        runs.append(Run('e2_coin', 'asan', ['--tier', 'quick'], label='e2_coin[asan] quick set'))
    return check('C05', tier, seed, runs, keyfilter=pref('c05:'), assumptions=ASSUME_COMMON)

def c06(tier, seed):
    return check('C06', tier, seed, [Run('e2_storage', 'asan', [])], keyfilter=pref('c06:'), assumptions=ASSUME_COMMON + [
        '2^256 buffers are explored field-wise around valid images: every byte x 256 values, the two header bytes (65536) with stale and with recomputed check values, footer variants, secret top bits x all check values, all 2-bit (and, thorough, 3-bit) flips'])

def c07(tier, seed):
    return check('C07', tier, seed, [Run('e2_words', 'asan', [])], keyfilter=pref('c07:'), assumptions=ASSUME_COMMON + [
        'words are observed through polyseed_encode output; the golden lists were extracted once from the pinned commit'])

def c08(tier, seed):
    runs = [Run('e2_prefix', 'asan', [])]
    if tier == 'thorough':
        runs.append(Run('e2_prefix', 'dbg', []))
    return check('C08', tier, seed, runs, keyfilter=pref('c08:'), assumptions=ASSUME_COMMON + [
        'accent folding is modelled as removal of every non-ASCII byte after NFKD (Spanish, French); non-ASCII letters that are not accents are outside the claim'])

def c11(tier, seed):
    runs = [Run('e2_birthday', 'asan', [])]
    if tier == 'thorough':
        runs.append(Run('e2_birthday', 'plain', ['every']))
    return check('C11', tier, seed, runs, keyfilter=pref('c11:'), assumptions=ASSUME_COMMON + ['clock values beyond the documented range (after March 2107) wrap modulo 1024 months; only B <= t is required there'])

def c17(tier, seed):
    runs = [Run('e2_maxlen', 'asan', [])]
    if tier == 'thorough':
        runs.append(Run('e2_maxlen', 'dbg', []))
    return check('C17', tier, seed, runs, keyfilter=pref('c17:'), assumptions=ASSUME_COMMON + [
        'phrase length is a sum of independent per-position terms, so per-position maxima over admissible indices give the exact worst case'])

CHECKS = {'C01': c01, 'C02': c02, 'C03': c03, 'C04': c04, 'C05': c05, 'C06': c06, 'C07': c07, 'C08': c08, 'C11': c11, 'C17': c17}

def setup():
    for m in ('plain', 'asan'):
        build.build_lib(m)
    for prog, modes in SETUP_PROGS:
        for m in modes:
            build.build_prog(prog, m, [prog + '.c'])
    return 0

SETUP_PROGS = [('e2_phrase', ['asan']), ('e2_gf', ['plain', 'asan']), ('e2_kdf', ['plain', 'asan']), ('e2_coin', ['asan']),
               ('e2_storage', ['asan']), ('e2_words', ['asan']), ('e2_prefix', ['asan']), ('e2_birthday', ['asan']), ('e2_maxlen', ['asan'])]
ENGINES = [
 {'name': 'E2', 'path': 'harness/e2_*.c', 'serves_properties': ['C01', 'C02', 'C03', 'C04', 'C05', 'C06', 'C07', 'C08', 'C11', 'C17'],
  'kind_free_text': 'bounded exhaustive enumeration of finite input factors, every case executed on the real API (ASan+UBSan build) and compared with the reference model'},
]
NA = {}
TB = 'gcc 12 + ASan/UBSan, binutils, libutf8proc, reference model harness/ref.c, golden word lists (sha256-pinned)'
META = {
 'C01': dict(engine='E2', design_ref='DESIGN.md section 5 C01', technique='exhaustive enumeration of seed factors x languages x coins x masks on the real encode/decode (explicit-state, no sampling)',
   text='Complete enumeration of every (language, word position, 11-bit index) in several background seeds, all 1- and 2-bit seeds, all 2048 coins, all birthdays x supported features x enabled masks; each case is encoded and decoded (explicit and automatic) on the real library and the decoded seed must be observationally identical (store bytes, getters, KDF arguments). 2^150 secrets are covered by factoring, stated in DESIGN.md section 7.',
   note='Trusted: ' + TB + '. Escapes: effects needing >=3 specific bits in different words outside all backgrounds.'),
 'C03': dict(engine='E2', design_ref='DESIGN.md section 5 C03', technique='exhaustive enumeration of seed factors, byte comparison of every emitted phrase with an independent reference encoder',
   text='Same enumeration as C01 with a different oracle: every phrase emitted by polyseed_encode must be byte-identical to the phrase computed by the reference model (README bit layout, golden word lists, coin XOR, separator, NFC), the stored check value must equal the reference GF(2048) value, and re-encoding after unrelated operations must give the same bytes. A bit-linear packing is pinned by the single-bit seeds and their pairs, which are enumerated completely.',
   note='Trusted: ' + TB + '.'),
 'C02': dict(engine='E2', design_ref='DESIGN.md section 5 C02', technique='complete enumeration of GF(2^11) one-word polynomials x check values through load, distance conditions on the library table, phrases x 16 x 2047 substitutions and 120 swaps',
   text='All 15 x 2048 x 2048 (position, value, check value) triples go through polyseed_load and exactly the reference product may be accepted; additivity is checked through the create path on all pairs of basis bits (thorough: all pairs of one-word polynomials at 16 position pairs); from the library table every single-word difference must contribute non-zero and no two positions may contribute equally (transposition); base phrases with every word substituted and every pair swapped are decoded by both decoders.',
   note='Trusted: ' + TB + '. The 2^165 x positions space is reduced by GF(2)-linearity, itself checked exhaustively on the field.'),
 'C04': dict(engine='E2', design_ref='DESIGN.md section 5 C04', technique='exhaustive enumeration of coins x birthdays x feature values with a logging KDF stub and page-protected key buffer',
   text='All 2048 coins x 1024 birthdays x 16 loadable feature values (x secrets) call polyseed_keygen; every argument of the single KDF call is compared with the reference byte strings, mapped back by a constructive inverse, and the key page is made inaccessible when the stub returns so any later access by the library faults. The same abstract seed reached by load, create, decode in 10 languages and crypt twice must give identical inputs (E1 repeats this in every reachable state).',
   note='Trusted: ' + TB + ', mprotect/SIGSEGV.'),
 'C05': dict(engine='E2', design_ref='DESIGN.md section 5 C05', technique='exhaustive enumeration of ordered coin pairs on the real encode/decode',
   text='English: all 2048 x 2048 ordered (A,B) pairs per seed; other languages all B for 32 A (quick) or all A (thorough, sorted lists). B != A must give the checksum status, B = A the same seed; the phrases for A and coin 0 must differ in exactly the second word, whose index is c1 xor A.',
   note='Trusted: ' + TB + '. Seeds: zeros, ones (+ pseudo-random in thorough).'),
 'C06': dict(engine='E2', design_ref='DESIGN.md section 5 C06', technique='field-wise exhaustive enumeration of 32-byte buffers around valid images against a reference acceptance predicate',
   text='Every enumerated buffer is given to polyseed_load; status must equal the reference predicate (precedence FORMAT > CHECKSUM > UNSUPPORTED) under masks 0, 5, 7; acceptance implies store(load(buf)) == buf and a seed equal to the fields; rejection leaves nothing allocated. Round trip: seeds made through create must store exactly the reference byte layout.',
   note='Trusted: ' + TB + '. 2^256 is covered field-wise, not fully.'),
 'C07': dict(engine='E2', design_ref='DESIGN.md section 5 C07', technique='complete enumeration of 10 x 2048 words, all pairs per language, 16 positions, observed through the API',
   text='Every word is obtained from polyseed_encode output and compared with sha256-pinned golden lists; registry names and order; all C(2048,2) pairs per language for equality, shared 4-letter prefixes, prefix relation; strict order under signed and unsigned bytes; every word at every one of the 16 positions decodes to its own index; NFC/NFKD stability; separators. The 197 three-letter prefix pairs of the frozen English/Spanish lists are listed known findings.',
   note='Trusted: ' + TB + '.'),
 'C08': dict(engine='E2', design_ref='DESIGN.md section 5 C08', technique='exhaustive enumeration of prefix x accent-subset x normal-form variants of every word through decode_explicit',
   text='For every word of every language: every prefix length, every subset of accents kept or dropped, NFD and NFC spelling, wrong continuations, spurious accents, upper case; each variant replaces a word of a checksum-valid phrase and must decode to the same seed iff the rule permits it; statuses also equal the reference decoder. Mixed phrases carry permitted variants in all 16 positions.',
   note='Trusted: ' + TB + '. Accent folding = removal of non-ASCII bytes after NFKD.'),
 'C11': dict(engine='E2', design_ref='DESIGN.md section 5 C11', technique='exhaustive enumeration of clock values (thorough: every second of the 1024-month range) through create with an injected clock',
   text='quick: all 1024 month boundaries on both sides, first/middle/last second, 0, epoch, 2^31/2^32/2^63/2^64 neighbours, powers of two; thorough: every one of the 2.7e9 seconds from one month before the epoch to one month after the range. The property inequalities are asserted directly and against 128-bit reference arithmetic; all 1024 month indices survive store/load, 10 languages and crypt.',
   note='Trusted: ' + TB + '.'),
 'C17': dict(engine='E2', design_ref='DESIGN.md section 5 C17', technique='exact worst-case computation by exhaustive per-position maxima over the words the library emits + extremal witnesses under ASan',
   text='Per language x enabled mask x form (output, encode temporary, NFKD) the maximum phrase length is computed exactly from the words the library itself emits and must be below sizeof(polyseed_str); witnesses attaining the per-position maxima are encoded with a canary behind the buffer and decoded back.',
   note='Trusted: ' + TB + '.'),
}
