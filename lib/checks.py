"""Registry: property id -> function(tier, seed) -> exit code."""
import driver, build
from driver import Run, check

ASSUME_COMMON = [
    'injected NFC/NFKD is libutf8proc; it truncates to sizeof(polyseed_str)-1 bytes and NUL-terminates',
    'reference model harness/ref.c (written from README.md + polyseed.h) and golden word lists /verif/golden (sha256-pinned, English digest = published BIP-39 digest)',
    'compilers, sanitizers, binutils (ld -r, objcopy section renaming)',
]
def pref(*pp):
    return lambda k: any(k.startswith(p) for p in pp) or k.startswith('crash:') or k.startswith('program-exit') or k.startswith('fatal:')

def c01(tier, seed):
    runs = [Run('e2_phrase', 'asan', ['c01'])]
    if tier == 'thorough':
        runs.append(Run('e2_phrase', 'dbg', ['c01']))
    return check('C01', tier, seed, runs, keyfilter=pref('c01:'), assumptions=ASSUME_COMMON + [
        'factoring: every 11-bit word value in every position in each background seed, all 1- and 2-bit seeds, all coins, all birthdays x supported features x masks; an effect that needs three specific bits in different words outside every background escapes'])

def c03(tier, seed):
    runs = [Run('e2_phrase', 'asan', ['c03'])]
    return check('C03', tier, seed, runs, keyfilter=pref('c03:'), assumptions=ASSUME_COMMON + [
        'bit-linearity argument: the packing is determined by the 165 single-bit seeds and their pairs, which are enumerated completely'])

CHECKS = {'C01': c01, 'C03': c03}

def setup():
    for m in ('plain', 'asan'):
        build.build_lib(m)
    return 0

ENGINES = [
 {'name': 'E2', 'path': 'harness/e2_*.c', 'serves_properties': ['C01', 'C03'],
  'kind_free_text': 'bounded exhaustive enumeration of finite input factors, every case executed on the real API (ASan+UBSan build) and compared with the reference model'},
]
NA = {}
TB = 'gcc 12 + ASan/UBSan, binutils, libutf8proc, reference model harness/ref.c, golden word lists (sha256-pinned)'
META = {
 'C01': dict(engine='E2', design_ref='DESIGN.md section 5 C01', technique='exhaustive enumeration of seed factors x languages x coins x masks on the real encode/decode (explicit-state, no sampling)',
   text='Complete enumeration of every (language, word position, 11-bit index) in several background seeds, all 1- and 2-bit seeds, all 2048 coins, all birthdays x supported features x enabled masks; each case is encoded and decoded (explicit and automatic) on the real library and the decoded seed must be observationally identical (store bytes, getters, KDF arguments). 2^150 secrets are covered by factoring, stated in DESIGN.md section 7.',
   note='Trusted: ' + TB + '. Escapes: effects needing >=3 specific bits in different words outside all backgrounds.'),
 'C03': dict(engine='E2', design_ref='DESIGN.md section 5 C03', technique='exhaustive enumeration of seed factors, byte comparison of every emitted phrase with an independent reference encoder',
   text='Same enumeration as C01 with a different oracle: every phrase emitted by polyseed_encode must be byte-identical to the phrase computed by the reference model (README bit layout, golden word lists, coin XOR, separator, NFC), the stored check value must equal the reference GF(2048) value, and re-encoding after unrelated operations must give the same bytes. A bit-linear packing is pinned by the single-bit seeds and their pairs, which are enumerated completely.',
   note='Trusted: ' + TB + '.'),
}
