"""Registry: property id -> function(tier, seed) -> exit code."""
import driver, build
from driver import Run, check

ASSUME_COMMON = [
    'process environment: the C locale, plus (C01, C02, C05, C07, C09, C14, C17) a second pass under a synthetic single-byte ISO-8859-2 locale built offline with localedef (tools/make_locale.py) in which bytes above 0x7F are letters with case mappings and NEL / the no-break space are white space; time zone settings are enumerated in C11',
    'injected NFC/NFKD is libutf8proc; it truncates to sizeof(polyseed_str)-1 bytes and NUL-terminates',
    'reference model harness/ref.c (written from README.md + polyseed.h) and golden word lists /verif/golden (sha256-pinned, English digest = published BIP-39 digest)',
    'compilers, sanitizers, binutils (ld -r, objcopy section renaming)',
]
def pref(*pp):
    return lambda k: any(k.startswith(p) for p in pp) or k.startswith('crash:') or k.startswith('program-exit') or k.startswith('fatal:')

def c01(tier, seed):
    runs = [Run('e2_phrase', 'asan', ['c01']), Run('e2_phrase', 'plain', ['--locale', 'verif_l2', '--tier', 'quick', 'c01'], label='e2_phrase[plain] c01 under a single-byte process locale')]
    if tier == 'thorough':
        runs.append(Run('e2_phrase', 'dbg', ['--tier', 'quick', 'c01'], label='e2_phrase[dbg] c01 (quick set, assertions on)'))
        runs += [Run('e2_phrase', m, ['--tier', 'quick', 'c01'], label='e2_phrase[%s] c01 (quick set, compiler matrix)' % m) for m in ('gcc-O3', 'clang-O2', 'clang-O3')]
    return check('C01', tier, seed, runs, keyfilter=pref('c01:'), assumptions=ASSUME_COMMON + [
        'factoring: every 11-bit word value in every position in each background seed, all 1- and 2-bit seeds, all coins, all birthdays x supported features x masks; an effect that needs three specific bits in different words outside every background escapes'])

def c03(tier, seed):
    runs = [Run('e2_phrase', 'asan', ['c03'])]
    return check('C03', tier, seed, runs, keyfilter=pref('c03:'), assumptions=ASSUME_COMMON + [
        'bit-linearity argument: the packing is determined by the 165 single-bit seeds and their pairs, which are enumerated completely'])

def c02(tier, seed):
    runs = [Run('e2_gf', 'plain', []), Run('e2_gf', 'asan', ['--stride', '61' if tier == 'quick' else '7']), Run('e2_gf', 'plain', ['--locale', 'verif_l2', '--tier', 'quick', '--stride', '61'], label='e2_gf[plain] under a single-byte process locale')]
    return check('C02', tier, seed, runs, keyfilter=pref('c02:'), assumptions=ASSUME_COMMON + [
        'linearity argument: doubling checked on all 2048 elements at every Horner depth (part a) and additivity on all pairs of basis polynomials (part b) reduce detection to (position, difference), enumerated completely (part c)'])

def c04(tier, seed):
    if tier == 'quick':
        runs = [Run('e2_kdf', 'plain', []), Run('e2_kdf', 'asan', ['--slice', '7'])]
    else:
        runs = [Run('e2_kdf', 'plain', []), Run('e2_kdf', 'asan', [])]
    return check('C04', tier, seed, runs, keyfilter=pref('c04:'), assumptions=ASSUME_COMMON + [
        'key sizes {0,1,31,32,33,64,4000}; the key buffer ends at a page boundary followed by an inaccessible page and the page is made inaccessible when the KDF stub returns'])

def c05(tier, seed):
    runs = [Run('e2_coin', 'asan' if tier == 'quick' else 'plain', []), Run('e2_coin', 'plain', ['--locale', 'verif_l2', '--tier', 'quick'], label='e2_coin[plain] under a single-byte process locale')]
    if tier == 'thorough':
        runs.append(Run('e2_coin', 'asan', ['--tier', 'quick'], label='e2_coin[asan] quick set'))
    return check('C05', tier, seed, runs, keyfilter=pref('c05:'), assumptions=ASSUME_COMMON)

def c06(tier, seed):
    return check('C06', tier, seed, [Run('e2_storage', 'asan', []), Run('e2_storage', 'dbg', [], label='e2_storage[dbg] (library assertions on)')], keyfilter=pref('c06:'), assumptions=ASSUME_COMMON + [
        '2^256 buffers are explored field-wise around valid images: every byte x 256 values, the two header bytes (65536) with stale and with recomputed check values, footer variants, secret top bits x all check values, all 2-bit (and, thorough, 3-bit) flips'])

def c07(tier, seed):
    return check('C07', tier, seed, [Run('e2_words', 'asan', []), Run('e2_words', 'plain', ['--locale', 'verif_l2', '--tier', 'quick'], label='e2_words[plain] under a single-byte process locale')], keyfilter=pref('c07:'), assumptions=ASSUME_COMMON + [
        'words are observed through polyseed_encode output; the golden lists were extracted once from the pinned commit'])

def c08(tier, seed):
    runs = [Run('e2_prefix', 'asan', [])]
    if tier == 'thorough':
        runs.append(Run('e2_prefix', 'dbg', []))
    return check('C08', tier, seed, runs, keyfilter=pref('c08:'), assumptions=ASSUME_COMMON + [
        'accent folding is modelled as removal of every non-ASCII byte after NFKD (Spanish, French); non-ASCII letters that are not accents are outside the claim'])

def c11(tier, seed):
    runs = [Run('e2_birthday', 'asan', [])]
    if tier == 'thorough':
        runs.append(Run('e2_birthday', 'plain', ['every']))
    return check('C11', tier, seed, runs, keyfilter=pref('c11:'), assumptions=ASSUME_COMMON + ['clock values beyond the documented range (after March 2107) wrap modulo 1024 months; only B <= t is required there'])

def c17(tier, seed):
    runs = [Run('e2_maxlen', 'asan', []), Run('e2_maxlen', 'plain', ['--locale', 'verif_l2', '--tier', 'quick'], label='e2_maxlen[plain] under a single-byte process locale')]
    if tier == 'thorough':
        runs.append(Run('e2_maxlen', 'dbg', []))
    return check('C17', tier, seed, runs, keyfilter=pref('c17:'), assumptions=ASSUME_COMMON + [
        'phrase length is a sum of independent per-position terms, so per-position maxima over admissible indices give the exact worst case'])

def e1_cov(results):
    out = {}
    for r, res in results:
        if r.prog == 'e1_bfs':
            out.setdefault('e1', []).append({k[3:]: v for k, v in res.items() if k.startswith('e1_')} | {'run': res['_label']})
    return out

def e1_exhaustive_post(results):
    # a capped / unfinished search is not a violation, but must not be called exhaustive: handled through timed_out of the part
    return []

def c10(tier, seed):
    runs = [Run('e1_bfs', 'asan', ['feat'])]
    return check('C10', tier, seed, runs, keyfilter=pref('c10:', 'c13:', 'c15:', 'harness:'), extra_cov=e1_cov, assumptions=ASSUME_COMMON + [
        'alphabet: enable_features over 14 arguments (all 8 masks + arguments with higher bits), create over 13 feature arguments, reload, recode (explicit/auto), crypt, free; in every state all 32 five-bit feature values are tried at load, decode_explicit, decode and 16 arguments at create'])

def c12(tier, seed):
    # (e2_crypt also runs with the library's assertions enabled: build mode dbg)
    runs = [Run('e1_bfs', 'asan', ['crypt']), Run('e2_crypt', 'asan', []), Run('e2_crypt', 'dbg', [], label='e2_crypt[dbg] (library assertions on)')]
    return check('C12', tier, seed, runs, keyfilter=pref('c12:', 'c13:', 'c15:', 'c14:', 'harness:'), extra_cov=e1_cov, assumptions=ASSUME_COMMON + [
        'passwords: empty, ASCII, e-acute composed / decomposed, half-width and full-width katakana KA (compatibility-equivalent), 400 x; the KDF stub derives the mask from the exact password bytes it receives, so equal results <=> equal normalised passwords',
        'passwords longer than sizeof(polyseed_str)-1 bytes after normalisation are outside the claim (the library cuts them)'])

def c13(tier, seed):
    if tier == 'quick':
        runs = [Run('e1_bfs', 'asan', ['api', '2']), Run('e1_bfs', 'asan', ['tables', '2']), Run('e2_pairs', 'plain', []), Run('e2_long', 'asan', [])]
    else:
        runs = [Run('e1_bfs', 'asan', ['api', '2']), Run('e1_bfs', 'asan', ['tables', '2']), Run('e1_bfs', 'plain', ['api', '3']), Run('e1_bfs', 'dbg', ['crypt']), Run('e1_bfs', 'dbg', ['api', '2'])]
        runs += [Run('e1_bfs', m, ['api', '2'], label='e1_bfs[%s] api 2 (compiler matrix)' % m) for m in ('gcc-O0', 'gcc-O3', 'gcc-Os', 'clang-O0', 'clang-O2', 'clang-O3')]
        runs += [Run('e2_pairs', 'plain', []), Run('e2_pairs', 'asan', ['--tier', 'quick'], label='e2_pairs[asan] en+es'), Run('e2_long', 'asan', []), Run('e2_long', 'plain', [])]
    return check('C13', tier, seed, runs, keyfilter=pref('c13:', 'c10:', 'c12:', 'c14:', 'c18:', 'harness:'), extra_cov=e1_cov, budget_s=(4200 if tier == 'thorough' else None), assumptions=ASSUME_COMMON + [
        'e2_pairs: every ordered pair (A, B) of words of a language (quick: English and Spanish; thorough: the 8 sorted languages, 33.5 M pairs): a phrase ending in A is decoded, then a phrase beginning with B, whose result must be the reference seed whatever A was',
        'alphabet (closed, so the search reaches a fixpoint): create with 3 feature arguments, free, free(NULL), crypt with 2 passwords, store/load into an empty slot, encode/decode into an empty slot (en auto, ko coin 2047 explicit, zh_s auto), enable_features {0,1,7}, re-injection of two dependency tables (B: different random source and clock, libc time/malloc/free), arming an allocation fault; 2 seed slots (thorough: 3)',
        'state key = library writable sections + raw bytes of every live seed block + environment; a change that introduces hidden state only grows the state space',
        'e2_long: what depends on how many calls were made or how many seeds are alive is outside the closed alphabet; it is enumerated along one canonical history: every live count 0..300 (four release orders) and every call count up to 70 000 (thorough 500 000) of each of six operations, model and ledger compared at every step'])

def c15(tier, seed):
    runs = [Run('e1_bfs', 'asan', ['api', '2']), Run('e2_fault', 'asan', []), Run('e1_bfs', 'asan', ['inject']), Run('e2_long', 'asan', [])]
    if tier == 'thorough':
        runs.append(Run('e1_bfs', 'plain', ['api', '3']))
    def cov(results):
        c = e1_cov(results)
        ft = sum(res.get('e1_fault_transitions', 0) for _, res in results)
        fd = sum(res.get('e1_fault_distinct', 0) for _, res in results) + sum(res.get('fault_distinct_triples', 0) for _, res in results)
        e2 = sum(p['cases'] for r, res in results if r.prog == 'e2_fault' for p in res['parts'])
        c.update({'evaluations': ft + e2, 'distinct_nontrivial': fd,
                  'rule': 'evaluations = API calls executed with a failing allocation request armed that actually reached the request (E1 transitions out of armed states) plus the entry-point x outcome-class x fail_at cases of e2_fault; distinct_nontrivial = distinct (operation, resulting status) pairs observed under a fired fault in E1 plus distinct (entry point, status, fail_at) triples in e2_fault'})
        return c
    return check('C15', tier, seed, runs, level='fault_enumeration', keyfilter=pref('c15:', 'c16:free', 'harness:'), extra_cov=cov, assumptions=ASSUME_COMMON + [
        'every library call makes at most one allocation request (asserted on every transition), so "every choice of which requests fail" is one boolean per call; faults may be armed repeatedly along a history (no bound)',
        'allocator: blocks are filled with 0xDD junk, never zero; ledger detects unknown, repeated and NULL frees'])

def c18(tier, seed):
    runs = [Run('e1_bfs', 'asan', ['inject']), Run('e2_tape', 'asan', []), Run('e1_bfs', 'asan', ['api', '2']), Run('e1_bfs', 'asan', ['tables', '2']), Run('e2_crypt', 'asan', []), Run('e3_sched', 'tsanrt', ['only', '10'], label='e3_sched[tsanrt] H10: the dependencies injected on the main thread are the ones every worker thread gets')]     # e2_crypt: the normaliser is the injected one for every kind of password
    def audit(results):
        d = build.lib_dir('plain')
        und = [l.split()[-1] for l in open(d + '/undefined.txt') if l.strip()]
        allowed = {'malloc', 'free', 'time', 'memcpy', 'memset', 'memcmp', 'bcmp', 'memmove', 'strcmp', 'strlen', 'bsearch', '__assert_fail', '__stack_chk_fail', '_GLOBAL_OFFSET_TABLE_'}
        bad = [u for u in und if u not in allowed]
        audit.info = {'undefined_symbols_of_library': und}
        return [{'key': 'c18:link:%s' % u, 'replay': '', 'msg': 'the library references the external symbol %s, which is not an injected dependency nor one of the permitted libc helpers' % u} for u in bad]
    def cov(results):
        c = e1_cov(results); c['link_audit'] = getattr(audit, 'info', {}); return c
    return check('C18', tier, seed, runs, keyfilter=pref('c18:', 'harness:', 'c20:not-serial'), post=audit, extra_cov=cov, assumptions=ASSUME_COMMON + [
        'link audit: the undefined symbols of the merged library object (plain build) must be a subset of {malloc, free, time, mem*/str* helpers, bsearch, assert/stack-protector helpers}; malloc/free/time are redirected to counting wrappers'])

def c09(tier, seed):
    runs = [Run('e2_detect', 'asan', []), Run('e2_detect', 'plain', ['--locale', 'verif_l2', '--tier', 'quick'], label='e2_detect[plain] under a single-byte process locale')]
    def cov(results):
        res = results[0][1]
        return {k: res.get(k) for k in ('decision_rows_hit', 'decision_rows_feasible', 'recognition_classes', 'bases', 'strings')}
    def rows(results):
        res = results[0][1]
        if res.get('decision_rows_hit') is not None and res.get('decision_rows_hit') < res.get('decision_rows_feasible', 0) and not any(p['timed_out'] for p in res['parts']):
            return [{'key': 'harness:decision-table-coverage', 'replay': '', 'msg': 'only %s of %s feasible rows of the error-condition table were exercised' % (res.get('decision_rows_hit'), res.get('decision_rows_feasible'))}]
        return []
    return check('C09', tier, seed, runs, keyfilter=pref('c09:', 'harness:'), extra_cov=cov, post=rows, assumptions=ASSUME_COMMON + [
        'strings are explored by bounded deviation (<= 2 deviations) from 28 base phrases with a menu of one token per cross-language recognition class (68 classes in the pinned lists) plus unknown/empty tokens and separator changes; inputs longer than sizeof(polyseed_str)-1 after normalisation are judged on the cut string'])

def c14(tier, seed):
    runs = [Run('e2_strings', 'asan', []), Run('e2_strings', 'dbg', []), Run('e2_storage', 'asan', ['--tier', 'quick'], label='e2_storage[asan] load enumeration'), Run('e2_strings', 'plain', ['--locale', 'verif_l2', '--tier', 'quick'], label='e2_strings[plain] under a single-byte process locale')]
    return check('C14', tier, seed, runs, keyfilter=pref('c14:', 'c06:leak', 'c06:accept'), assumptions=ASSUME_COMMON + [
        'small scope: all strings up to length 5 (thorough 6) over 9 byte classes, bare and after valid 14/15/16-token prefixes of every language, boundary-length families around the buffer size; other byte values are represented by their class only',
        'run in ASan+UBSan builds with and without assertions; each string sits in an exactly sized heap block'])

def c19(tier, seed):
    progs = [('e2_phrase', ['c01']), ('e2_phrase', ['c03']), ('e2_prefix', []), ('e2_detect', []), ('e2_strings', []), ('e2_words', []), ('e2_crypt', []), ('e1_bfs', ['crypt'])]
    if tier == 'thorough':
        progs += [('e2_coin', ['--tier', 'quick']), ('e1_bfs', ['api', '2']), ('e2_gf', ['--stride', '61'])]
    runs = []
    for prog, args in progs:
        for mode in ('schar', 'uchar'):
            runs.append(Run(prog, mode, args, label='%s[%s] %s' % (prog, mode, ' '.join(args))))
    # the same with assertions compiled in (Debug builds run the library's own word-list self-test inside polyseed_inject)
    for prog, args in [('e2_words', []), ('e2_maxlen', [])] + ([('e2_prefix', [])] if tier == 'thorough' else []):
        for mode in ('schar-dbg', 'uchar-dbg'):
            runs.append(Run(prog, mode, args, label='%s[%s] %s' % (prog, mode, ' '.join(args))))
    def diff(results):
        out = []; cmp_blocks = 0
        for i in range(0, len(results), 2):
            (ra, a), (rb, b) = results[i], results[i + 1]
            pa, pb = a['parts'], b['parts']
            if len(pa) != len(pb):
                out.append({'key': 'c19:parts:%s' % ra.prog, 'replay': '', 'msg': '%s produced %d parts with signed char and %d with unsigned char' % (ra.label, len(pa), len(pb))}); continue
            for x, y in zip(pa, pb):
                cmp_blocks += 1
                if x['timed_out'] or y['timed_out']:
                    continue
                if (x['digest'], x['cases'], x['calls'], x['classes']) != (y['digest'], y['cases'], y['calls'], y['classes']):
                    dk = [k for k in x['classes'] if x['classes'][k] != y['classes'].get(k)]
                    out.append({'key': 'c19:transcript:%s:%s' % (ra.prog, x['name'][:40].replace(' ', '_')), 'replay': '',
                                'msg': 'transcripts differ between -fsigned-char and -funsigned-char builds in %s / %s: digest %s vs %s, outcome classes that differ: %s' % (ra.label, x['name'], x['digest'], y['digest'], {k: (x['classes'][k], y['classes'].get(k)) for k in dk})})
            for k in [k for k in a if k.startswith('e1_')]:
                if a[k] != b.get(k):
                    out.append({'key': 'c19:e1:%s' % k, 'replay': '', 'msg': 'E1 %s differs between signedness builds: %s vs %s' % (k, a[k], b.get(k))})
        diff.blocks = cmp_blocks
        return out
    def cov(results):
        return {'blocks_compared': getattr(diff, 'blocks', 0), 'configurations': ['-fsigned-char', '-funsigned-char']}
    return check('C19', tier, seed, runs, keyfilter=lambda k: not k.startswith('c07:prefix-pair'), post=diff, extra_cov=cov, budget_s=(900 if tier == 'quick' else 2400), assumptions=ASSUME_COMMON + [
        'the two configurations are gcc -fsigned-char and -funsigned-char on x86-64; every E2/E1 script is run against both builds, each must satisfy its own oracle (so both equal the reference model) and the per-part transcripts (rolling digest of every status and output, case and outcome counts) must be identical'])

def c16(tier, seed):
    modes = ['gcc-O2', 'gcc-O0'] if tier == 'quick' else ['gcc-O0', 'gcc-O1', 'gcc-O2', 'gcc-O3', 'gcc-Os', 'clang-O0', 'clang-O2', 'clang-O3']
    runs = [Run('e4_residue', m, ['--build', m], label='e4_residue[%s]' % m) for m in modes]
    runs.append(Run('e1_bfs', 'asan', ['api', '2']))     # zero-at-free / memzero-before-free on every free of every reachable history
    runs.append(Run('e2_fault', 'asan', []))             # ... and on every release made while any one allocation request of a call fails
    runs.append(Run('e2_long', 'asan', []))              # ... and when hundreds of seeds are alive or tens of thousands of calls have been made
    def cov(results):
        return {'builds': modes, 'cells_reached_per_build': {res['_label']: res.get('cells_reached') for r, res in results if r.prog == 'e4_residue'},
                'bytes_scanned': sum(res.get('bytes_scanned', 0) for r, res in results), 'cells_expected': 101}
    def post(results):
        out = []
        for r, res in results:
            if r.prog == 'e4_residue' and res.get('cells_reached') is not None and res.get('cells_reached') != 101:
                out.append({'key': 'harness:e4-cells:%s' % r.mode, 'replay': '', 'msg': '%s reached %s of 101 (function, exit) cells' % (res['_label'], res.get('cells_reached'))})
        return out
    return check('C16', tier, seed, runs, keyfilter=pref('c16:', 'harness:'), extra_cov=cov, post=post, assumptions=ASSUME_COMMON + [
        'what a given compiler leaves behind: the build matrix is the claim (quick: gcc -O2, -O0; thorough: gcc -O0..-Os, clang -O0/-O2/-O3), x86-64',
        'dependency callbacks repaint the stack below their frames; residue inside the dependencies (utf8proc heap, KDF) is outside the library',
        'single word indices (11 bits) are not searched, only adjacent pairs; secrets are searched as 8-byte windows'])

def c20(tier, seed):
    runs = [Run('e3_sched', 'tsanrt', ['only', str(h)], label='e3_sched[tsanrt] H%d' % h) for h in ((5, 3, 4, 2, 1, 6, 7, 8, 9, 10) if tier == 'thorough' else (3, 4, 2, 1, 6, 7, 8, 9, 10))]
    runs.append(Run('e3_free', 'tsan', [], label='e3_free[tsan] free-running ThreadSanitizer pass'))
    def cov(results):
        c = {'e3': {}}
        for r, res in results:
            for k, v in res.items():
                if k.startswith('e3_'):
                    c['e3'][k[3:]] = v
        ex = sum(v for k, v in c['e3'].items() if k.endswith('_executions'))
        c['executions'] = ex
        c['complete_without_preemption_bound'] = all(v == 1 for k, v in c['e3'].items() if k.endswith('_complete'))
        d = build.lib_dir('tsanrt')
        c['writable_library_data'] = [l.split()[-1] + ':' + l.split()[1] for l in open(d + '/symbols.txt') if len(l.split()) == 4 and l.split()[2] in 'dDbB']
        c['external_functions_called_by_the_library'] = [l.split()[-1] for l in open(d + '/undefined.txt') if l.strip() and not l.split()[-1].startswith('__tsan')]
        return c
    def post(results):
        out = []
        # what the scheduler cannot see: C library functions that keep process-wide state of their own (POSIX: MT-Unsafe race:...).
        # A library that calls one of them from the thread-safe part of its API races inside libc, outside the instrumented code.
        unsafe = {'strtok', 'rand', 'srand', 'random', 'srandom', 'drand48', 'lrand48', 'mrand48', 'localtime', 'gmtime', 'ctime', 'asctime', 'strerror',
                  'setlocale', 'tmpnam', 'readdir', 'getpwnam', 'getpwuid', 'strsignal', 'ecvt', 'fcvt', 'gcvt', 'l64a', 'setenv', 'putenv', 'unsetenv', 'tzset', 'mktime', 'getenv', 'wcstombs', 'mblen', 'mbtowc', 'wctomb'}
        und = [l.split()[-1] for l in open(build.lib_dir('tsanrt') + '/undefined.txt') if l.strip()]
        for u in und:
            if u in unsafe:
                out.append({'key': 'c20:libc-hidden-state:%s' % u, 'replay': '', 'msg': 'the library calls %s, which keeps process-wide state inside the C library (MT-Unsafe): concurrent calls on distinct seeds race there, outside the library static data the scheduler instruments' % u})
        for r, res in results:
            if r.prog == 'e3_free' and 'ThreadSanitizer' in res.get('_stderr', ''):
                out.append({'key': 'c20:tsan-report', 'replay': '', 'msg': 'ThreadSanitizer reported a data race in the free-running pass: ' + res['_stderr'][:1200]})
        return out
    def kf(k):
        if k.startswith('program-exit:e3_free'):
            return True
        return pref('c20:', 'harness:')(k)
    return check('C20', tier, seed, runs, keyfilter=kf, extra_cov=cov, post=post, parallel=True, assumptions=ASSUME_COMMON + [
        'sequentially consistent interleavings at the granularity of individual accesses to the library writable static data (sections ps_data/ps_bss); for race-free code that is all there is, and race freedom itself is decided by the exact race oracle',
        'harnesses H1-H10: 2 threads x 3-6 calls, 3 threads x 2-3 calls, on distinct seeds with colliding language/coin, refused (feature not enabled) inputs next to accepted ones, libc allocator, a shared pool allocator that recycles released blocks across threads, ambiguous phrases decoded automatically and then explicitly, twin threads that are given identical random blocks and clock readings; injection and feature configuration happen before the threads start (the property promises nothing for concurrent polyseed_inject / polyseed_enable_features)',
        'C11 atomic operations of the library are intercepted too: each is a scheduling point and a happens-before edge (acquire+release, sequentially consistent; weaker memory orders are not modelled); the race oracle is a vector-clock happens-before detector, which without atomics in the library degenerates to: any byte written by one thread and touched by another; a thread that repeats an atomic operation without effect is a spinner and yields, all threads spinning = no-progress violation',
        'when a harness is too large at access granularity (a change added shared mutable data), it is explored completely at synchronisation granularity (atomic operations and thread ends only; sufficient for race-free code, and the race detector runs on every execution) and then at access granularity with preemption bounds 0,1,2',
        'language tables are pure read-only data and are not instrumented; libc helpers are covered by the separate free-running ThreadSanitizer pass'])

CHECKS = {'C20': c20, 'C16': c16, 'C19': c19, 'C09': c09, 'C14': c14, 'C10': c10, 'C12': c12, 'C13': c13, 'C15': c15, 'C18': c18, 'C01': c01, 'C02': c02, 'C03': c03, 'C04': c04, 'C05': c05, 'C06': c06, 'C07': c07, 'C08': c08, 'C11': c11, 'C17': c17}

def setup():
    import sys as _s, os as _o
    _s.path.insert(0, _o.path.join(build.ROOT, 'tools'))
    import make_locale
    make_locale.main(_o.path.join(build.BUILD, 'locale-v2'))      # the synthetic single-byte locale of the locale passes
    for m in ('plain', 'asan'):
        build.build_lib(m)
    for prog, modes in SETUP_PROGS:
        for m in modes:
            build.build_prog(prog, m, [prog + '.c'])
    return 0

SETUP_PROGS = [('e2_phrase', ['asan']), ('e2_gf', ['plain', 'asan']), ('e2_kdf', ['plain', 'asan']), ('e2_coin', ['asan']),
               ('e2_storage', ['asan']), ('e2_words', ['asan']), ('e2_prefix', ['asan']), ('e2_birthday', ['asan']), ('e2_maxlen', ['asan']),
               ('e1_bfs', ['asan']), ('e2_crypt', ['asan']), ('e2_tape', ['asan']), ('e2_fault', ['asan']), ('e2_detect', ['asan']), ('e2_strings', ['asan', 'dbg']), ('e4_residue', ['gcc-O2', 'gcc-O0']), ('e3_sched', ['tsanrt']), ('e3_free', ['tsan']), ('e2_pairs', ['plain']), ('e2_long', ['asan']), ('e2_coin', ['plain']), ('e2_words', ['plain']), ('e2_maxlen', ['plain']), ('e2_phrase', ['plain']), ('e2_detect', ['plain']), ('e2_strings', ['plain'])]
ENGINES = [
 {'name': 'E3', 'path': 'harness/e3_sched.c, harness/e3_scripts.h, harness/e3_free.c', 'serves_properties': ['C20'],
  'kind_free_text': 'stateless model checking of thread interleavings: the library is compiled with -fsanitize=thread and linked against the harness own __tsan_* callbacks; real pthreads under a baton scheduler, scheduling point at every access to the library writable static data, DFS over choice prefixes with a visited-state cache (complete, no preemption bound needed on the unchanged tree), C11 atomic operations of the library are scheduling points and happens-before edges (vector-clock race oracle), spinning threads yield and an all-spinning state is a violation, a harness too large at access granularity is completed at synchronisation granularity; race, serial-equivalence and progress oracles; plus a separate free-running real-TSan pass'},
 {'name': 'E4', 'path': 'harness/e4_residue.c', 'serves_properties': ['C16'],
  'kind_free_text': 'exhaustive enumeration of (API function, exit path) cells x compiler/optimisation builds on a dedicated painted stack, followed by a full scan of the dead stack and the library static data for secret needles; zero-at-free and memzero-before-free at every release'},
 {'name': 'E5', 'path': 'lib/checks.py:c19 + harness/e2_*.c, e1_bfs.c', 'serves_properties': ['C19'],
  'kind_free_text': 'configuration enumeration: the exhaustive E1/E2 scripts are executed against -fsigned-char and -funsigned-char builds of the library and their transcripts compared part by part'},
 {'name': 'E1', 'path': 'harness/e1_bfs.c (profiles api, feat, crypt, inject, tables)', 'serves_properties': ['C10', 'C12', 'C13', 'C15', 'C18'],
  'kind_free_text': 'explicit-state breadth-first search over API histories on the real library to fixpoint; states rebuilt by replay, de-duplicated on library sections + live seed bytes + environment; every transition compared with the reference model, observation battery in every new state; allocation faults as a state component'},
 {'name': 'E2', 'path': 'harness/e2_*.c', 'serves_properties': ['C01', 'C02', 'C03', 'C04', 'C05', 'C06', 'C07', 'C08', 'C09', 'C11', 'C12', 'C13', 'C14', 'C15', 'C17', 'C18'],
  'kind_free_text': 'bounded exhaustive enumeration of finite input factors, every case executed on the real API (ASan+UBSan build) and compared with the reference model'},
]
NA = {}
TB = 'gcc 12 + ASan/UBSan, binutils, libutf8proc, reference model harness/ref.c, golden word lists (sha256-pinned)'
META = {
 'C01': dict(engine='E2', design_ref='DESIGN.md section 5 C01', technique='exhaustive enumeration of seed factors x languages x coins x masks on the real encode/decode (explicit-state, no sampling)',
   text='Complete enumeration of every (language, word position, 11-bit index) in several background seeds, all 1- and 2-bit seeds, all 2048 coins, all birthdays x supported features x enabled masks, exact extremal phrases (longest word in all 16 positions) of every language; each case is encoded and decoded (explicit and automatic) on the real library and the decoded seed must be observationally identical (store bytes, getters, KDF arguments). 2^150 secrets are covered by factoring, stated in DESIGN.md section 7.',
   note='Trusted: ' + TB + '. Escapes: effects needing >=3 specific bits in different words outside all backgrounds.'),
 'C03': dict(engine='E2', design_ref='DESIGN.md section 5 C03', technique='exhaustive enumeration of seed factors, byte comparison of every emitted phrase with an independent reference encoder',
   text='Same enumeration as C01 with a different oracle: every phrase emitted by polyseed_encode must be byte-identical to the phrase computed by the reference model (README bit layout, golden word lists, coin XOR, separator, NFC), the stored check value must equal the reference GF(2048) value, and re-encoding after unrelated operations must give the same bytes. A bit-linear packing is pinned by the single-bit seeds and their pairs, which are enumerated completely.',
   note='Trusted: ' + TB + '.'),
 'C20': dict(engine='E3', design_ref='DESIGN.md section 5 C20', technique='stateless exploration of all thread interleavings under a controlled scheduler (custom __tsan_* runtime incl. atomics, state caching), happens-before race + serial-equivalence + progress oracles',
   text='All interleavings of seven (thorough: eight) multi-threaded harnesses (refused-feature inputs next to valid ones; a pool allocator that recycles released blocks across threads; libc allocator; create/encode/decode/free; load/crypt/keygen/encode/decode_explicit/free; 3 threads with colliding language and coin; Chinese auto-detection + non-ASCII crypt against Korean create/encode/decode; thorough: 3 threads x full create/encode/decode/free cycles, 114 305 states) at the granularity of single accesses to the library writable static data are executed on the real library (2 555 + 4 164 + 30 688 + 3 114 states on the unchanged tree, each complete without a preemption bound). Every execution is checked for a write/any-access pair by different threads on a shared byte, for accesses to another thread seed memory, and for per-thread transcripts equal to a serial run. A free-running pass of the same bodies under real ThreadSanitizer keeps uninstrumented libc helpers visible.',
   note='Trusted: ' + TB + ', gcc -fsanitize=thread instrumentation, pthreads/semaphores. Sequential consistency; 2-3 threads; a state cap switches to iterative preemption bounding and is reported.'),
 'C16': dict(engine='E4', design_ref='DESIGN.md section 5 C16', technique='enumeration of every API function x exit path x compiler build on a painted stack with full residue scan; wipe-before-free checked on every free of the E1 state space',
   text='Each of 101 (function, exit) cells (four of them with the caller buffers at odd addresses; fourteen on seed objects with another history - after one and after two password operations, out of a decoder, loaded; decoders in English, Spanish, Korean and Chinese) - create OK/unsupported/memory, load OK/memory/5 format causes/checksum/unsupported, both decoders x OK/word count/language/checksum/memory/unsupported x 3 languages, multiple languages, encode in composing and plain languages, crypt with ASCII and non-ASCII password, keygen, store, getters, free - is executed on a dedicated 256 KiB stack painted 0xA5; afterwards the complete dead stack and the library writable sections are searched for the secret bytes, the encrypted secret, the mask, the password (raw, NFKD), every phrase word and adjacent word-index pairs (u16/u32/u64). At every free the block must be zero and covered by an earlier injected memzero. Repeated for each compiler build.',
   note='Trusted: ' + TB + ', makecontext. Sees what these compilers leave behind on x86-64.'),
 'C19': dict(engine='E5', design_ref='DESIGN.md section 5 C19', technique='configuration enumeration (both char signednesses) x the exhaustive E1/E2 scripts, transcript comparison',
   text='The phrase sweeps (all ten languages), the prefix/accent variants, the detection strings, the small-scope strings, the word-list sweep, the password masks and the E1 crypt profile are executed against two builds of the library (-fsigned-char, -funsigned-char). Each build must pass the oracles of those scripts, and the per-part transcripts (digest of every status and output, counts, outcome classes, E1 state/transition counts) must be equal; a violation inside one build carries the replayable case.',
   note='Trusted: ' + TB + '. Only gcc on x86-64 with the two flag settings; other ABIs are represented by the flag.'),
 'C09': dict(engine='E2', design_ref='DESIGN.md section 5 C09', technique='bounded-deviation exhaustive exploration of phrase strings (<=2 deviations from base phrases), differential auto vs 10 explicit decoders + reference decoder',
   text='Every single deviation and pairs of deviations (token replaced by a representative of each of the 68 cross-language recognition classes, unknown, empty; separator doubled, ideographic, no-break; leading/trailing spaces, 17th token, 15 tokens) from 28 base phrases (each language valid/bad check word, phrases recognised by 6 / 2 lists) x coins x masks x failing allocation. For each string: auto = OK implies exactly one language recognises all tokens and equals its explicit result; MULT_LANG iff >= 2; LANG iff none; NUM_WORDS first; plus equality with the reference decoder and coverage of all 22 feasible rows of the simultaneous-error table.',
   note='Trusted: ' + TB + '. Deviation bound 2 (thorough: all 120 position pairs).'),
 'C14': dict(engine='E2', design_ref='DESIGN.md section 5 C14', technique='small-scope exhaustive enumeration of byte strings under ASan/UBSan with status, input-immutability, ledger and termination oracles',
   text='All strings up to length 5 (6) over 9 byte classes (ASCII, space, lead/continuation bytes of 2- and 3-byte UTF-8, invalid FF), alone and appended to valid 14/15/16-token phrases in each language, plus every length around the buffer size, sliding non-ASCII offsets, a 17th token across the cut, token-count x token-length grids, and well-formed phrases carrying each of the 32 feature values x 10 languages x enabled masks 7/0/2 (refused seeds are failed calls too); fed to decode, decode_explicit (4 languages) and crypt in sanitizer builds with and without assertions; buffers for load come from the C06 enumeration.',
   note='Trusted: ' + TB + '. Other byte values only by class; lengths beyond 2*size+80 not tried.'),
 'C10': dict(engine='E1', design_ref='DESIGN.md section 5 C10', technique='explicit-state BFS over enable/create/reload/recode/crypt/free histories to fixpoint, all 32 feature values x 4 entry points in every state',
   text='Breadth-first search of the real library over sequences of enable_features (14 arguments incl. high bits), create (13 arguments), store/load, encode/decode, crypt and free until no new state appears; in every state all 32 five-bit feature values are presented to load, decode_explicit, decode and create and must be refused exactly when they contain a bit outside (mask | encrypted); enable returns popcount(arg & 7); feature queries return exactly the stored user bits.',
   note='Trusted: ' + TB + '. Sequences are exhaustive for the stated alphabet (fixpoint), seeds/languages/coins inside the battery are fixed representatives.'),
 'C12': dict(engine='E1+E2', design_ref='DESIGN.md section 5 C12', technique='explicit-state BFS over password-operation histories to fixpoint + exhaustive per-byte enumeration of KDF masks',
   text='E1: one or two seeds, 7 passwords (empty, ASCII, composed/decomposed/compatibility-equivalent non-ASCII, 400 characters), crypt/reload/recode/free to fixpoint with every state compared with the model (XOR, truncate, toggle, re-checksum) and every KDF call compared byte for byte (NFKD password without terminator, salt, 10000, 32). E2: the stub returns every value of every mask byte, all 256 x 64 combinations at the truncation corner; result must equal the model, be loadable/encodable, and a second application must restore the original. Passwords: a non-ASCII character at every offset of 2-65 byte passwords in both spellings, every one- and two-byte ASCII password (control characters included) reaches the KDF unchanged, normal forms of 531-546 bytes (at, below and above the phrase-buffer capacity) in both spellings, crypt under a refusing allocator.',
   note='Trusted: ' + TB + '. 2^256 masks are covered byte-wise (XOR acts byte-wise, the only cross-byte effect is the check value, which is compared for every case).'),
 'C13': dict(engine='E1', design_ref='DESIGN.md section 5 C13', technique='explicit-state BFS over API histories of the real library to fixpoint, reference model compared on every transition and in every state',
   text='All reachable states of the 2-slot (thorough: 3-slot) API machine over a closed alphabet of 37 operations (2 slots) are visited - create (incl. high argument bits, a clock in the first month after 2107 and one more than 2^32 s after the epoch), free, free(NULL), crypt, store/load, encode/decode (3 variants), enable_features, re-injection of two dependency tables, an armed allocation fault, and seven calls that must fail and change nothing (bad images, garbage, wrong coin, phrases that two lists recognise) - 10 188 states on the unchanged tree, keyed on (implementation state, model state) pairs; each transition status/output equals the abstract model, and in every new state every live seed is observed (store, getters, KDF inputs for 2 coins, phrases in all 10 languages, reload, decode in 3 languages) and must equal the model seed, with queries leaving the state key unchanged. Hidden state is part of the key, so it cannot be merged away.',
   note='Trusted: ' + TB + '. Bounded by the alphabet (argument domains) and the number of slots, not by depth.'),
 'C15': dict(engine='E1+E2', category='fault_enumeration', design_ref='DESIGN.md section 5 C15', technique='allocation-fault arming as a state component of the explicit-state search + entry point x outcome class x failing-request enumeration',
   text='In the E1 search an allocation fault can be armed in every state; every transition is therefore executed fault-free and with its allocation request failing, and exploration continues after the failure. After every call the ledger must equal the number of live seeds, no unknown/repeated/NULL pointer may reach free, free(NULL) makes no dependency call, a fired fault yields the memory status. e2_fault crosses each entry point and outcome class (OK, word count, language, multiple languages, checksum, 6 format causes, unsupported) with every allocation request of the call made to fail in turn (the number of requests is learnt from a fault-free run) and with injected and libc allocators; and every constructor is run under four fill patterns of fresh memory (00, DD, FF, 5A) and must hand out observationally identical seeds.',
   note='Trusted: ' + TB + '. Blocks are junk-filled, so reliance on zeroed memory shows as a model mismatch.'),
 'C18': dict(engine='E1+E2', design_ref='DESIGN.md section 5 C18', technique='explicit-state BFS over injection sequences (16 tables) to fixpoint with call-log oracle, single-bit random tapes, link audit of undefined symbols',
   text='E1 profile inject: all sequences of polyseed_inject over 2 tables x 8 NULL patterns (caller struct poisoned right after the call), create, free, free(NULL), armed fault, to fixpoint; after every transition (also in the api profile: decoders, load, crypt, failing calls) time, allocation and release must have gone through exactly the table in force - injected function or libc when the entry is NULL (counting wrappers) - random bytes requested once, 19 bytes, written inside the new block. No function of a table that is no longer injected may be called (table B has its own allocate / release / wipe / KDF / random / clock entry points). E2 tapes: 152 single-bit and 152 single-zero-bit tapes, byte-18 values, bytes beyond 19, extreme clocks. Link audit: no undefined symbol beyond the permitted libc helpers.',
   note='Trusted: ' + TB + ', nm.'),
 'C02': dict(engine='E2', design_ref='DESIGN.md section 5 C02', technique='complete enumeration of GF(2^11) one-word polynomials x check values through load, distance conditions on the library table, phrases x 16 x 2047 substitutions and 120 swaps',
   text='All 15 x 2048 x 2048 (position, value, check value) triples go through polyseed_load and exactly the reference product may be accepted; additivity is checked through the create path on all pairs of basis bits (thorough: all pairs of one-word polynomials at 16 position pairs); from the library table every single-word difference must contribute non-zero and no two positions may contribute equally (transposition); base phrases with every word substituted and every pair swapped are decoded by both decoders.',
   note='Trusted: ' + TB + '. The 2^165 x positions space is reduced by GF(2)-linearity, itself checked exhaustively on the field.'),
 'C04': dict(engine='E2', design_ref='DESIGN.md section 5 C04', technique='exhaustive enumeration of coins x birthdays x feature values with a logging KDF stub and page-protected key buffer',
   text='All 2048 coins x 1024 birthdays x 16 loadable feature values (x secrets) call polyseed_keygen; every argument of the single KDF call is compared with the reference byte strings, mapped back by a constructive inverse, and the key page is made inaccessible when the stub returns so any later access by the library faults. The same abstract seed reached by load, create (also with argument bits above the three feature bits), decode in 10 languages, crypt twice, and encrypt -> phrase -> decode -> decrypt must give identical inputs (E1 repeats this in every reachable state); the creation path also under clocks in the first month after the 1024-month range, one and two whole ranges later (> 2^32 s) and several ranges later.',
   note='Trusted: ' + TB + ', mprotect/SIGSEGV.'),
 'C05': dict(engine='E2', design_ref='DESIGN.md section 5 C05', technique='exhaustive enumeration of ordered coin pairs on the real encode/decode',
   text='English: all 2048 x 2048 ordered (A,B) pairs per seed; other languages all B for 32 A (quick) or all A (thorough, sorted lists). B != A must give the checksum status, B = A the same seed, and that restored seed must encode again to the very same phrases for coin A and coin 0 (no coin residue inside the seed); the phrases for A and coin 0 must differ in exactly the second word, whose index is c1 xor A.',
   note='Trusted: ' + TB + '. Seeds: zeros, ones (+ pseudo-random in thorough).'),
 'C06': dict(engine='E2', design_ref='DESIGN.md section 5 C06', technique='field-wise exhaustive enumeration of 32-byte buffers around valid images against a reference acceptance predicate',
   text='Every enumerated buffer is given to polyseed_load; status must equal the reference predicate (precedence FORMAT > CHECKSUM > UNSUPPORTED) under masks 0, 5, 7; acceptance implies store(load(buf)) == buf and a seed equal to the fields; rejection leaves nothing allocated. Round trip: seeds made through create, and seeds after one or two password operations for all 256 values of the mask byte that overlaps the 150-bit boundary, must store exactly the reference byte layout and load back.',
   note='Trusted: ' + TB + '. 2^256 is covered field-wise, not fully.'),
 'C07': dict(engine='E2', design_ref='DESIGN.md section 5 C07', technique='complete enumeration of 10 x 2048 words, all pairs per language, 16 positions, observed through the API',
   text='Every word is obtained from polyseed_encode output and compared with sha256-pinned golden lists; registry names and order; all C(2048,2) pairs per language for equality, shared 4-letter prefixes, prefix relation; strict order under signed and unsigned bytes; every word at every one of the 16 positions decodes to its own index; NFC/NFKD stability; separators. The 197 three-letter prefix pairs of the frozen English/Spanish lists are listed known findings.',
   note='Trusted: ' + TB + '.'),
 'C08': dict(engine='E2', design_ref='DESIGN.md section 5 C08', technique='exhaustive enumeration of prefix x accent-subset x normal-form variants of every word through decode_explicit',
   text='For every word of every language: every prefix length, every subset of accents kept or dropped, NFD and NFC spelling, wrong continuations, spurious accents, upper case; each variant replaces a word of a checksum-valid phrase and must decode to the same seed iff the rule permits it; statuses also equal the reference decoder. Mixed phrases carry permitted variants in all 16 positions.',
   note='Trusted: ' + TB + '. Accent folding = removal of non-ASCII bytes after NFKD.'),
 'C11': dict(engine='E2', design_ref='DESIGN.md section 5 C11', technique='exhaustive enumeration of clock values (thorough: every second of the 1024-month range) through create with an injected clock',
   text='quick: all 1024 month boundaries on both sides, first/middle/last second, 0, epoch, 2^31/2^32/2^63/2^64 neighbours, powers of two; thorough: every one of the 2.7e9 seconds from one month before the epoch to one month after the range. The property inequalities are asserted directly and against 128-bit reference arithmetic; all 1024 month indices survive store/load, 10 languages and crypt; a clock whose readings change inside one call; the default clock (time entry NULL) under 7 time-zone settings of the process x 12 readings around each of 1031 month boundaries.',
   note='Trusted: ' + TB + '.'),
 'C17': dict(engine='E2', design_ref='DESIGN.md section 5 C17', technique='exact worst-case computation by exhaustive per-position maxima over the words the library emits + extremal witnesses under ASan',
   text='Per language x enabled mask x form (output, encode temporary, NFKD) the maximum phrase length is computed exactly from the words the library itself emits and must be below sizeof(polyseed_str); witnesses attaining the per-position maxima (and exact extremal ones whose check word is maximal too) are encoded with a canary behind the buffer and decoded back; 400 (thorough 6000) seeds x 10 languages x 7 coins: the returned length equals strlen of the output for every coin and each produced phrase is accepted again by both decoders.',
   note='Trusted: ' + TB + '.'),
}
