"""Build the library under test from /repo's current working tree in a given mode,
and link harness programs against it.  Objects are cached under /verif/build keyed by
the sha256 of every input (sources, headers, flags), so an edited tree is always rebuilt."""
import hashlib, os, re, subprocess, sys, shutil
from concurrent.futures import ThreadPoolExecutor

ROOT = os.path.dirname(os.path.dirname(os.path.abspath(__file__)))
REPO = os.environ.get('VERIF_REPO', '/repo')
BUILD = os.path.join(ROOT, 'build')
GUARD = 'POLYSEED_VERIF'   # no source hooks exist; the define is passed anyway so a future hook is honoured

COMMON = '-std=gnu11 -fno-common -fno-pie -DPOLYSEED_STATIC -D%s' % GUARD
SAN = '-fsanitize=address,undefined -fno-sanitize-recover=all -fno-omit-frame-pointer'
MODES = {
    # name: (compiler, library cflags, harness cflags, link flags)
    'plain': ('gcc', '-O2 -DNDEBUG', '-O2', ''),
    'asan':  ('gcc', '-O1 -g -DNDEBUG ' + SAN, '-O1 -g ' + SAN, SAN),
    'dbg':   ('gcc', '-O1 -g ' + SAN, '-O1 -g ' + SAN, SAN),
    'schar': ('gcc', '-O2 -DNDEBUG -fsigned-char', '-O2', ''),
    'uchar': ('gcc', '-O2 -DNDEBUG -funsigned-char', '-O2', ''),
    'schar-dbg': ('gcc', '-O1 -g -fsigned-char', '-O1 -g', ''),        # assertions on (the library's own word-list self-test runs in polyseed_inject)
    'uchar-dbg': ('gcc', '-O1 -g -funsigned-char', '-O1 -g', ''),
    'tsanrt': ('gcc', '-O1 -g -DNDEBUG -fsanitize=thread', '-O1 -g', ''),      # custom __tsan_* runtime in the harness
    'tsan':  ('gcc', '-O1 -g -DNDEBUG -fsanitize=thread', '-O1 -g -fsanitize=thread', '-fsanitize=thread'),
}
for cc in ('gcc', 'clang'):
    for o in ('O0', 'O1', 'O2', 'O3', 'Os'):
        MODES['%s-%s' % (cc, o)] = (cc, '-%s -DNDEBUG' % o, '-O1', '')

def sh(cmd, **kw):
    r = subprocess.run(cmd, shell=isinstance(cmd, str), capture_output=True, text=True, **kw)
    if r.returncode != 0:
        sys.stderr.write('BUILD FAILED: %s\n%s\n%s\n' % (cmd, r.stdout, r.stderr))
        raise SystemExit(2)
    return r.stdout

def repo_sources():
    txt = open(os.path.join(REPO, 'CMakeLists.txt')).read()
    m = re.search(r'set\(polyseed_sources\s+(.*?)\)', txt, re.S)
    srcs = m.group(1).split()
    return [os.path.join(REPO, s) for s in srcs]

def tree_hash():
    h = hashlib.sha256()
    files = sorted(set(repo_sources()) |
                   {os.path.join(REPO, 'src', f) for f in os.listdir(os.path.join(REPO, 'src')) if f.endswith('.h')} |
                   {os.path.join(REPO, 'include', f) for f in os.listdir(os.path.join(REPO, 'include'))} |
                   {os.path.join(REPO, 'CMakeLists.txt')})
    for f in files:
        h.update(f.encode()); h.update(open(f, 'rb').read())
    return h.hexdigest()

def build_lib(mode):
    """returns path of the merged, section-renamed object"""
    cc, cflags, _, _ = MODES[mode]
    key = hashlib.sha256((tree_hash() + mode + cflags + COMMON + 'v3').encode()).hexdigest()[:20]
    d = os.path.join(BUILD, 'lib-%s-%s' % (mode, key))
    out = os.path.join(d, 'ps.o')
    if os.path.exists(out):
        return out
    # drop stale builds of the same mode (disk is limited)
    if os.path.isdir(BUILD):
        for e in os.listdir(BUILD):
            if e.startswith('lib-%s-' % mode):
                shutil.rmtree(os.path.join(BUILD, e), ignore_errors=True)
    tmp = d + '.tmp%d' % os.getpid()
    os.makedirs(tmp, exist_ok=True)
    srcs = repo_sources()
    def comp(s):
        o = os.path.join(tmp, os.path.basename(s)[:-2] + '.o')
        fl = cflags
        if mode == 'tsanrt' and os.path.basename(s).startswith('lang_'):
            fl = fl.replace('-fsanitize=thread', '')      # pure data tables
        sh('%s %s %s -I%s/include -c %s -o %s' % (cc, COMMON, fl, REPO, s, o))
        return o
    with ThreadPoolExecutor(16) as ex:
        objs = list(ex.map(comp, srcs))
    merged = os.path.join(tmp, 'all.o')
    sh(['ld', '-r', '-o', merged] + objs)
    # undefined symbols of the library (link audit, C18) - before any renaming
    und = sh(['nm', '-u', merged])
    open(os.path.join(tmp, 'undefined.txt'), 'w').write(und)
    # writable sections -> ps_data / ps_bss ; libc malloc/free/time -> harness counters
    secs = sh(['objdump', '-h', merged])
    ren = []
    names = re.findall(r'^\s*\d+\s+(\S+)\s', secs, re.M)
    for n in names:
        if n == '.data' or (n.startswith('.data.') and not n.startswith('.data.rel.ro')):
            ren += ['--rename-section', '%s=ps_data' % n]
        elif n == '.bss' or n.startswith('.bss.'):
            ren += ['--rename-section', '%s=ps_bss' % n]
    sh(['objcopy'] + ren + ['--redefine-sym', 'malloc=ps_libc_malloc', '--redefine-sym', 'free=ps_libc_free',
                            '--redefine-sym', 'time=ps_libc_time', merged, os.path.join(tmp, 'ps.o')])
    syms = sh(['nm', '-S', '--defined-only', os.path.join(tmp, 'ps.o')])
    open(os.path.join(tmp, 'symbols.txt'), 'w').write(syms)
    for o in objs:
        os.unlink(o)
    os.unlink(merged)
    try:
        os.rename(tmp, d)
    except OSError:
        shutil.rmtree(tmp, ignore_errors=True)   # somebody else won the race
    return out

def lib_dir(mode):
    return os.path.dirname(build_lib(mode))

def build_prog(name, mode, srcs, extra_cflags='', extra_ld='', core=True):
    """compile harness sources (paths relative to /verif/harness) and link with the library"""
    cc, _, hflags, ldflags = MODES[mode]
    lib = build_lib(mode)
    hs = [os.path.join(ROOT, 'harness', s) for s in srcs]
    if core:
        hs += [os.path.join(ROOT, 'harness', s) for s in ('hcore.c', 'ref.c')]
    deps = hs + [os.path.join(ROOT, 'harness', f) for f in os.listdir(os.path.join(ROOT, 'harness')) if f.endswith('.h')]
    h = hashlib.sha256()
    for f in sorted(deps):
        h.update(f.encode()); h.update(open(f, 'rb').read())
    h.update((lib + hflags + ldflags + extra_cflags + extra_ld + 'v2').encode())
    out = os.path.join(BUILD, 'prog-%s-%s-%s' % (name, mode, h.hexdigest()[:16]))
    if os.path.exists(out):
        return out
    for e in os.listdir(BUILD):
        if e.startswith('prog-%s-%s-' % (name, mode)):
            try: os.unlink(os.path.join(BUILD, e))
            except OSError: pass
    # harness is always compiled with gcc (clang modes only differ in the library)
    hcc = 'gcc'
    tmp = out + '.tmp%d' % os.getpid()
    cmd = '%s -std=gnu11 -fno-pie -no-pie -Wall -Wno-unused-function %s %s -DVERIF_ROOT=\\"%s\\" -I%s/include -I%s/harness %s %s -o %s %s %s -lutf8proc -lpthread -lm -Wl,-z,now' % (
        hcc, hflags, extra_cflags, ROOT, REPO, ROOT, ' '.join(hs), lib, tmp, ldflags, extra_ld)
    sh(cmd)
    os.rename(tmp, out)
    return out

if __name__ == '__main__':
    for m in sys.argv[1:]:
        print(build_lib(m))
